#!/bin/bash
exec /verif/replays_src/run_overlay_test.sh /repo sql/migrate /verif/replays_src/C08/scanner_test.go TestGvcReplayScanner
