package migrate_test

// Replay for C08 (statement scanner): on a corpus of small inputs built from the scanner's
// special tokens, Scan must not panic and every statement's Pos must be the byte offset of
// its text in the input handed to Scan (src[Pos:] starts with Text), with and without the
// `-- atlas:delimiter` header.  Bounded corpus, used as a replay.

import (
	"fmt"
	"strings"
	"testing"

	"ariga.io/atlas/sql/migrate"
)

func TestGvcReplayScanner(t *testing.T) {
	pieces := []string{"select 1", ";", "\n", " ", "delimiter ", "'", "$$", "-- c\n", "/* c */", "(", ")", "BEGIN ", "END", "GO\n", ";;", "\\"}
	opts := []migrate.ScannerOptions{
		{},
		{MatchBegin: true, MatchBeginAtomic: true, MatchBeginTryCatch: true, MatchDollarQuote: true, BackslashEscapes: true, HashComments: true, GoCommand: true},
		{GoCommand: true, BeginEndTerminator: true, MatchBegin: true, OmitDelimiter: true},
		{EscapedStringExt: true, MatchDollarQuote: true, MatchBeginAtomic: true},
	}
	var inputs []string
	for _, a := range pieces {
		inputs = append(inputs, a)
		for _, b := range pieces {
			inputs = append(inputs, a+b)
			for _, c := range pieces {
				inputs = append(inputs, a+b+c)
			}
		}
	}
	headers := []string{"", "-- atlas:delimiter ;;\n", "-- atlas:delimiter \\n\\n\n"}
	n := 0
	for _, h := range headers {
		for _, in := range inputs {
			src := h + in
			for oi, o := range opts {
				func() {
					defer func() {
						if r := recover(); r != nil {
							t.Fatalf("VIOLATED never-panics: Scan(%q) with options #%d: %v", src, oi, r)
						}
					}()
					sc := &migrate.Scanner{ScannerOptions: o}
					stmts, err := sc.Scan(src)
					n++
					if err != nil {
						return
					}
					for _, st := range stmts {
						if st.Pos < 0 || st.Pos > len(src) || !strings.HasPrefix(src[st.Pos:], st.Text) {
							t.Fatalf("VIOLATED position-is-absolute-offset: Scan(%q) options #%d: statement %q has Pos=%d, input there reads %q", src, oi, st.Text, st.Pos, fmt.Sprint(src[min(max(st.Pos, 0), len(src)):]))
						}
					}
				}()
			}
		}
	}
	t.Logf("%d scans", n)
}
