package sqlx

// Replay for C16 / sqlx.CheckChangesScope#safe-nil:t.Schema: a table that is not attached to a
// schema and has an enum column whose type names a schema.

import (
	"testing"

	"ariga.io/atlas/sql/migrate"
	"ariga.io/atlas/sql/schema"
)

func TestGvcReplayCheckChangesScopeNilSchema(t *testing.T) {
	defer func() {
		if r := recover(); r != nil {
			t.Fatalf("VIOLATED safe-nil:t.Schema: CheckChangesScope panicked: %v", r)
		}
	}()
	tbl := schema.NewTable("posts").AddColumns(
		schema.NewEnumColumn("c1", schema.EnumName("status"), schema.EnumValues("a"), schema.EnumSchema(schema.New("other"))),
	)
	_ = CheckChangesScope(migrate.PlanOptions{SchemaQualifier: new(string)}, []schema.Change{&schema.AddTable{T: tbl}})
}
