package sqlx

// Replay for C16 / sqlx.(*Builder).mayQualify (any obligation): every identifier primitive must
// print exactly the requested qualifier (none when empty) and the object's own schema only
// when no qualifier was requested.

import (
	"testing"

	"ariga.io/atlas/sql/schema"
)

func TestGvcReplayBuilderQualifier(t *testing.T) {
	own := schema.New("own_schema_marker")
	tbl := schema.NewTable("t").SetSchema(own)
	col := schema.NewColumn("c")
	idx := schema.NewIndex("i")
	vw := schema.NewView("v", "select 1").SetSchema(own)
	custom, empty := "custom_q", ""
	for _, tc := range []struct {
		name string
		q    *string
		pfx  string
	}{{"none requested", nil, `"own_schema_marker".`}, {"empty", &empty, ""}, {"custom", &custom, `"custom_q".`}} {
		mk := func() *Builder { return &Builder{QuoteOpening: '"', QuoteClosing: '"', Schema: tc.q} }
		for what, got := range map[string]string{
			"Table":                 mk().Table(tbl).String(),
			"View":                  mk().View(vw).String(),
			"SchemaResource":        mk().SchemaResource(own, "r").String(),
			"TableColumn":           mk().TableColumn(tbl, col).String(),
			"TableResource(column)": mk().TableResource(tbl, col).String(),
			"TableResource(index)":  mk().TableResource(tbl, idx).String(),
			"ViewResource(column)":  mk().ViewResource(vw, col).String(),
			"RefTable(same schema)": mk().RefTable(tbl, tbl).String(),
		} {
			want := map[string]string{
				"Table": `"t"`, "View": `"v"`, "SchemaResource": `"r"`, "TableColumn": `"t"."c"`,
				"TableResource(column)": `"t"."c"`, "TableResource(index)": `"t"."i"`,
				"ViewResource(column)": `"v"."c"`, "RefTable(same schema)": `"t"`,
			}[what]
			if got != tc.pfx+want {
				t.Fatalf("VIOLATED qualifier-honoured: qualifier %s: %s printed %s, want %s", tc.name, what, got, tc.pfx+want)
			}
		}
	}
}
