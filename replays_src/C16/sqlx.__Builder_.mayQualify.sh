#!/bin/bash
exec /verif/replays_src/run_overlay_test.sh /repo sql/internal/sqlx /verif/replays_src/C16/builder_qualifier_test.go TestGvcReplayBuilderQualifier
