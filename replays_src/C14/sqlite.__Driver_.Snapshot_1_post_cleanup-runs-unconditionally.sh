#!/bin/bash
exec /verif/replays_src/run_overlay_test.sh /repo/cmd/atlas internal/cmdapi /verif/replays_src/C14/sqlite_restore_view_test.go TestGvcReplaySqliteRestoreCleansEverything
