package sqlx

// Replay for C14 / sqlx.(*DevDriver).NormalizeSchema#post:restore-error-reported:
// a dev driver whose restore function fails. The error must reach the caller.

import (
	"context"
	"errors"
	"testing"

	"ariga.io/atlas/sql/migrate"
	"ariga.io/atlas/sql/schema"
)

type gvcFailRestore struct {
	migrate.Driver
}

func (gvcFailRestore) Snapshot(context.Context) (migrate.RestoreFunc, error) {
	return func(context.Context) error { return errors.New("restore failed: dev database left dirty") }, nil
}
func (gvcFailRestore) InspectSchema(context.Context, string, *schema.InspectOptions) (*schema.Schema, error) {
	return schema.New("dev"), nil
}
func (gvcFailRestore) SchemaDiff(_, _ *schema.Schema, _ ...schema.DiffOption) ([]schema.Change, error) {
	return nil, nil
}
func (gvcFailRestore) ApplyChanges(context.Context, []schema.Change, ...migrate.PlanOption) error {
	return nil
}

func TestGvcReplayNormalizeSchemaRestoreError(t *testing.T) {
	d := &DevDriver{Driver: gvcFailRestore{}}
	_, err := d.NormalizeSchema(context.Background(), schema.New("public"))
	if err == nil {
		t.Fatal("VIOLATED restore-error-reported: the restore function failed but NormalizeSchema returned a nil error")
	}
}
