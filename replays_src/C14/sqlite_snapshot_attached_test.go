package cmdapi

// Replay for C14 / sqlite.(*Driver).Snapshot#safe-index: a SQLite dev database with an
// attached (empty) second database file and an empty main schema.

import (
	"context"
	"database/sql"
	"path/filepath"
	"testing"

	"ariga.io/atlas/sql/sqlite"

	_ "github.com/mattn/go-sqlite3"
)

func TestGvcReplaySqliteSnapshotAttached(t *testing.T) {
	dir := t.TempDir()
	db, err := sql.Open("sqlite3", "file:"+filepath.Join(dir, "main.db")+"?_fk=1")
	if err != nil {
		t.Skip(err)
	}
	defer db.Close()
	db.SetMaxOpenConns(1)
	if _, err := db.Exec("ATTACH DATABASE '" + filepath.Join(dir, "aux.db") + "' AS aux"); err != nil {
		t.Skip(err)
	}
	drv, err := sqlite.Open(db)
	if err != nil {
		t.Skip(err)
	}
	defer func() {
		if r := recover(); r != nil {
			t.Fatalf("VIOLATED safe-index: Snapshot panicked instead of refusing: %v", r)
		}
	}()
	_, err = drv.Snapshot(context.Background())
	t.Logf("Snapshot returned err=%v", err)
}
