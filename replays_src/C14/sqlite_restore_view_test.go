package cmdapi

// Replay for C14 / sqlite.(*Driver).Snapshot$1#post:cleanup-runs-unconditionally: whatever
// the dev database holds when the restore function runs (here: only a view, or a view and a
// trigger-less table), it must be empty afterwards.

import (
	"context"
	"database/sql"
	"path/filepath"
	"testing"

	"ariga.io/atlas/sql/migrate"
	"ariga.io/atlas/sql/sqlite"

	_ "github.com/mattn/go-sqlite3"
)

func TestGvcReplaySqliteRestoreCleansEverything(t *testing.T) {
	for _, stmts := range [][]string{
		{"CREATE VIEW one AS SELECT 1 AS c"},
		{"CREATE TABLE t(a int)", "CREATE VIEW v AS SELECT a FROM t", "DROP TABLE t"},
		{"CREATE TABLE t(a int)", "CREATE INDEX i ON t(a)"},
	} {
		db, err := sql.Open("sqlite3", "file:"+filepath.Join(t.TempDir(), "dev.db")+"?_fk=1")
		if err != nil {
			t.Skip(err)
		}
		db.SetMaxOpenConns(1)
		drv, err := sqlite.Open(db)
		if err != nil {
			t.Skip(err)
		}
		restore, err := drv.(migrate.Snapshoter).Snapshot(context.Background())
		if err != nil {
			t.Skip(err)
		}
		for _, s := range stmts {
			if _, err := db.Exec(s); err != nil {
				t.Skip(err)
			}
		}
		if err := restore(context.Background()); err != nil {
			t.Logf("restore reported %v", err)
			db.Close()
			continue
		}
		var n int
		if err := db.QueryRow("SELECT count(*) FROM sqlite_master").Scan(&n); err != nil {
			t.Skip(err)
		}
		if n != 0 {
			t.Fatalf("VIOLATED cleanup-runs-unconditionally: restore returned nil and left %d objects in the dev database after %q", n, stmts)
		}
		db.Close()
	}
}
