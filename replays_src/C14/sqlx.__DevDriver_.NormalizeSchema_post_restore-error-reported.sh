#!/bin/bash
exec /verif/replays_src/run_overlay_test.sh /repo sql/internal/sqlx /verif/replays_src/C14/normalize_schema_restore_test.go TestGvcReplayNormalizeSchemaRestoreError
