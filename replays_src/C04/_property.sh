#!/bin/bash
exec /verif/replays_src/run_overlay_test.sh /repo sql/internal/sqlx /verif/replays_src/C04/sort_changes_test.go TestGvcReplaySortChanges
