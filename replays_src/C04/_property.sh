#!/bin/bash
# property-level replay for C04: fixed small change sets in every input order, then the bounded graph enumeration
/verif/replays_src/run_overlay_test.sh /repo sql/internal/sqlx /verif/replays_src/C04/sort_changes_test.go TestGvcReplaySortChanges
rc=$?
[ $rc -ne 0 ] && exit $rc
exec /verif/replays_src/run_overlay_test.sh /repo sql/internal/sqlx /verif/replays_src/C04/graphs_bounded_test.go TestGvcBoundedGraphs
