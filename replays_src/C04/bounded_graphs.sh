#!/bin/bash
# bounded stand-in for C04 (see graphs_bounded_test.go); GVC_C04_TABLES selects the bound (default 3)
exec /verif/replays_src/run_overlay_test.sh /repo sql/internal/sqlx /verif/replays_src/C04/graphs_bounded_test.go TestGvcBoundedGraphs
