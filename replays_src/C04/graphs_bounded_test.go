package sqlx

// Bounded stand-in for the part of C04 that no contract decides (the traversals of sortMap and
// SortChanges): every directed foreign-key graph, self loops included, over up to N tables
// (N = 3, or GVC_C04_TABLES), crossed with every assignment of the roles created / dropped /
// kept to the tables, is sent through the planners' pipeline DetachCycles -> SortChanges and
// the resulting changes are replayed, in order, against a reference catalogue:
//   - a table is created once and only when every table its inline foreign keys reference exists,
//   - a foreign key is added only when its parent exists,
//   - a table is dropped once and only when no other table still holds a foreign key to it,
//   - at the end exactly the created and kept tables exist.
// Each case is run twice: kept tables gain their new references through AddForeignKey, or
// through ModifyForeignKey (an existing key to an untouched table is re-pointed).
// An edge i -> j means: i created: inline foreign key; i dropped: foreign key existing before;
// i kept: foreign key added (j created or kept) or dropped (j dropped).  Assignments in which a
// created table references a dropped one, or a dropped table a created one, are not schemas.

import (
	"fmt"
	"os"
	"strconv"
	"testing"

	"ariga.io/atlas/sql/schema"
)

type gvcCatalogue struct {
	exists map[string]bool
	// live foreign keys: child -> parent -> count
	fks map[string]map[string]int
}

func (c *gvcCatalogue) addFK(child, parent string) error {
	if !c.exists[parent] {
		return fmt.Errorf("foreign key %s -> %s declared before table %s exists", child, parent, parent)
	}
	if c.fks[child] == nil {
		c.fks[child] = map[string]int{}
	}
	c.fks[child][parent]++
	return nil
}

func (c *gvcCatalogue) apply(ch schema.Change) error {
	switch ch := ch.(type) {
	case *schema.AddTable:
		if c.exists[ch.T.Name] {
			return fmt.Errorf("table %s created twice", ch.T.Name)
		}
		c.exists[ch.T.Name] = true
		for _, fk := range ch.T.ForeignKeys {
			if err := c.addFK(ch.T.Name, fk.RefTable.Name); err != nil {
				return err
			}
		}
	case *schema.DropTable:
		if !c.exists[ch.T.Name] {
			return fmt.Errorf("table %s dropped twice (or never existed)", ch.T.Name)
		}
		for child, ps := range c.fks {
			if child != ch.T.Name && ps[ch.T.Name] > 0 {
				return fmt.Errorf("table %s dropped while %s still holds a foreign key to it", ch.T.Name, child)
			}
		}
		delete(c.exists, ch.T.Name)
		delete(c.fks, ch.T.Name)
	case *schema.ModifyTable:
		if !c.exists[ch.T.Name] {
			return fmt.Errorf("table %s modified while it does not exist", ch.T.Name)
		}
		for _, n := range ch.Changes {
			if d, ok := n.(*schema.DropForeignKey); ok {
				if c.fks[ch.T.Name][d.F.RefTable.Name] == 0 {
					return fmt.Errorf("foreign key %s -> %s dropped twice", ch.T.Name, d.F.RefTable.Name)
				}
				c.fks[ch.T.Name][d.F.RefTable.Name]--
			}
		}
		for _, n := range ch.Changes {
			if m, ok := n.(*schema.ModifyForeignKey); ok {
				if c.fks[ch.T.Name][m.From.RefTable.Name] == 0 {
					return fmt.Errorf("foreign key %s -> %s re-pointed but not live", ch.T.Name, m.From.RefTable.Name)
				}
				c.fks[ch.T.Name][m.From.RefTable.Name]--
				if err := c.addFK(ch.T.Name, m.To.RefTable.Name); err != nil {
					return err
				}
			}
			if a, ok := n.(*schema.AddForeignKey); ok {
				if err := c.addFK(ch.T.Name, a.F.RefTable.Name); err != nil {
					return err
				}
			}
		}
	}
	return nil
}

const (
	gvcCreated = iota
	gvcDropped
	gvcKept
)

func TestGvcBoundedGraphs(t *testing.T) {
	maxN := 3
	if v, err := strconv.Atoi(os.Getenv("GVC_C04_TABLES")); err == nil && v > 0 {
		maxN = v
	}
	known := map[string]bool{}
	cases, failures := 0, 0
	for n := 1; n <= maxN; n++ {
		roles := make([]int, n)
		var eachRoles func(i int)
		eachRoles = func(i int) {
			if i < n {
				for r := gvcCreated; r <= gvcKept; r++ {
					roles[i] = r
					eachRoles(i + 1)
				}
				return
			}
			for g := 0; g < 1<<(n*n); g++ {
				edge := func(a, b int) bool { return g&(1<<(a*n+b)) != 0 }
				valid := true
				for a := 0; a < n && valid; a++ {
					for b := 0; b < n; b++ {
						if edge(a, b) && ((roles[a] == gvcCreated && roles[b] == gvcDropped) || (roles[a] == gvcDropped && roles[b] == gvcCreated)) {
							valid = false
						}
						if edge(a, a) && roles[a] == gvcKept {
							valid = false // a kept table adding a key to itself: no ordering question
						}
					}
				}
				if !valid {
					continue
				}
				for _, repoint := range []bool{false, true} {
					cases++
					if msg := gvcRunGraph(n, roles, edge, repoint); msg != "" {
						failures++
						if failures <= 5 && !known[msg] {
							t.Errorf("VIOLATED C04 bounded: roles=%v (0 created, 1 dropped, 2 kept) edges=%s repoint=%v: %s", roles, gvcEdges(n, edge), repoint, msg)
						}
					}
				}
			}
		}
		eachRoles(0)
	}
	t.Logf("bounded C04: %d (graph, role) cases over <= %d tables, %d failures", cases, maxN, failures)
}

func gvcEdges(n int, edge func(a, b int) bool) string {
	s := ""
	for a := 0; a < n; a++ {
		for b := 0; b < n; b++ {
			if edge(a, b) {
				s += fmt.Sprintf("t%d->t%d ", a, b)
			}
		}
	}
	return s
}

func gvcRunGraph(n int, roles []int, edge func(a, b int) bool, repoint bool) (msg string) {
	defer func() {
		if r := recover(); r != nil {
			msg = fmt.Sprintf("panic: %v", r)
		}
	}()
	sc := schema.New("public")
	ts := make([]*schema.Table, n)
	for i := range ts {
		ts[i] = schema.NewTable(fmt.Sprintf("t%d", i)).SetSchema(sc).AddColumns(schema.NewIntColumn("id", "int"))
		for j := 0; j < n; j++ {
			ts[i].AddColumns(schema.NewIntColumn(fmt.Sprintf("r%d", j), "int"))
		}
	}
	fk := func(a, b int) *schema.ForeignKey {
		return schema.NewForeignKey(fmt.Sprintf("fk_%d_%d", a, b)).SetTable(ts[a]).AddColumns(ts[a].Columns[1+b]).SetRefTable(ts[b]).AddRefColumns(ts[b].Columns[0])
	}
	// an untouched table that re-pointed foreign keys reference before the change
	base := schema.NewTable("base").SetSchema(sc).AddColumns(schema.NewIntColumn("id", "int"))
	cat := &gvcCatalogue{exists: map[string]bool{"base": true}, fks: map[string]map[string]int{}}
	var changes []schema.Change
	for a := 0; a < n; a++ {
		if roles[a] != gvcCreated {
			cat.exists[ts[a].Name] = true
		}
	}
	for a := 0; a < n; a++ {
		var nested []schema.Change
		for b := 0; b < n; b++ {
			if !edge(a, b) {
				continue
			}
			switch roles[a] {
			case gvcCreated:
				ts[a].AddForeignKeys(fk(a, b))
			case gvcDropped:
				ts[a].AddForeignKeys(fk(a, b))
				cat.addFK(ts[a].Name, ts[b].Name)
			case gvcKept:
				if roles[b] == gvcDropped {
					f := fk(a, b)
					cat.addFK(ts[a].Name, ts[b].Name)
					nested = append(nested, &schema.DropForeignKey{F: f})
				} else if repoint {
					to := fk(a, b)
					from := schema.NewForeignKey(to.Symbol).SetTable(ts[a]).AddColumns(to.Columns...).SetRefTable(base).AddRefColumns(base.Columns[0])
					cat.addFK(ts[a].Name, "base")
					nested = append(nested, &schema.ModifyForeignKey{From: from, To: to, Change: schema.ChangeRefTable | schema.ChangeRefColumn})
				} else {
					nested = append(nested, &schema.AddForeignKey{F: fk(a, b)})
				}
			}
		}
		switch roles[a] {
		case gvcCreated:
			changes = append(changes, &schema.AddTable{T: ts[a]})
		case gvcDropped:
			changes = append(changes, &schema.DropTable{T: ts[a]})
		case gvcKept:
			if len(nested) > 0 {
				changes = append(changes, &schema.ModifyTable{T: ts[a], Changes: nested})
			}
		}
	}
	planned, err := DetachCycles(changes)
	if err != nil {
		return fmt.Sprintf("DetachCycles failed: %v", err)
	}
	planned = SortChanges(planned, nil)
	for i, c := range planned {
		if err := cat.apply(c); err != nil {
			return fmt.Sprintf("change %d (%T): %v", i, c, err)
		}
	}
	for a := 0; a < n; a++ {
		if want := roles[a] != gvcDropped; cat.exists[ts[a].Name] != want {
			return fmt.Sprintf("table %s: exists=%v after the plan, want %v", ts[a].Name, cat.exists[ts[a].Name], want)
		}
	}
	for child, ps := range cat.fks {
		for p, cnt := range ps {
			if cnt > 1 {
				return fmt.Sprintf("foreign key %s -> %s declared %d times", child, p, cnt)
			}
		}
	}
	return ""
}
