package sqlx

// Replay for C04 (dependsOn / SortChanges): in the order computed for a change set, a table is
// created before any change that adds a foreign key to it or re-points one at it, and dropped
// after every change that drops a reference to it.  All orders of small change sets.

import (
	"testing"

	"ariga.io/atlas/sql/schema"
)

func TestGvcReplaySortChanges(t *testing.T) {
	s := schema.New("public")
	a := schema.NewTable("a").SetSchema(s).AddColumns(schema.NewIntColumn("id", "int"))
	old := schema.NewTable("old").SetSchema(s).AddColumns(schema.NewIntColumn("id", "int"))
	c := schema.NewTable("c").SetSchema(s).AddColumns(schema.NewIntColumn("id", "int"), schema.NewIntColumn("a_id", "int"))
	fkOld := schema.NewForeignKey("fk").SetTable(c).AddColumns(c.Columns[1]).SetRefTable(old).AddRefColumns(old.Columns[0])
	fkNew := schema.NewForeignKey("fk").SetTable(c).AddColumns(c.Columns[1]).SetRefTable(a).AddRefColumns(a.Columns[0])
	pos := func(cs []schema.Change, x schema.Change) int {
		for i := range cs {
			if cs[i] == x {
				return i
			}
		}
		return -1
	}
	type tc struct {
		name          string
		first, second schema.Change // first must be planned before second
	}
	addA := &schema.AddTable{T: a}
	dropOld := &schema.DropTable{T: old}
	cases := []tc{
		{"add fk after create", addA, &schema.ModifyTable{T: c, Changes: []schema.Change{&schema.AddForeignKey{F: fkNew}}}},
		{"re-point fk after create", addA, &schema.ModifyTable{T: c, Changes: []schema.Change{&schema.ModifyForeignKey{From: fkOld, To: fkNew, Change: schema.ChangeRefTable | schema.ChangeRefColumn}}}},
		{"drop fk before drop table", &schema.ModifyTable{T: c, Changes: []schema.Change{&schema.DropForeignKey{F: fkOld}}}, dropOld},
	}
	// a table referencing `a` through a foreign key of its own, created / dropped with it
	d := schema.NewTable("d").SetSchema(s).AddColumns(schema.NewIntColumn("id", "int"), schema.NewIntColumn("a_id", "int"))
	d.AddForeignKeys(schema.NewForeignKey("fkd").SetTable(d).AddColumns(d.Columns[1]).SetRefTable(a).AddRefColumns(a.Columns[0]))
	cases = append(cases,
		tc{"referenced table created first", addA, &schema.AddTable{T: d}},
		tc{"referencing table dropped first", &schema.DropTable{T: d}, &schema.DropTable{T: a}},
	)
	for _, tcase := range cases {
		for _, in := range [][]schema.Change{{tcase.first, tcase.second}, {tcase.second, tcase.first}} {
			out := SortChanges(in, nil)
			if len(out) != 2 {
				t.Fatalf("VIOLATED every-change-planned-once: %s: %d changes out", tcase.name, len(out))
			}
			if pos(out, tcase.first) > pos(out, tcase.second) {
				t.Fatalf("VIOLATED %s: planned in the wrong order for input order %T,%T", tcase.name, in[0], in[1])
			}
		}
	}
	// Drops are planned last unless something depends on them: with a re-creation of the dropped
	// table in the same change set the drop is pulled forward, and must still follow the change
	// that drops the foreign key pointing at the table.
	old2 := schema.NewTable("old").SetSchema(s).AddColumns(schema.NewIntColumn("id", "int"))
	modC := &schema.ModifyTable{T: c, Changes: []schema.Change{&schema.DropForeignKey{F: fkOld}}}
	three := []schema.Change{&schema.AddTable{T: old2}, dropOld, modC}
	for _, perm := range [][]int{{0, 1, 2}, {0, 2, 1}, {1, 0, 2}, {1, 2, 0}, {2, 0, 1}, {2, 1, 0}} {
		in := []schema.Change{three[perm[0]], three[perm[1]], three[perm[2]]}
		out := SortChanges(in, nil)
		if len(out) != 3 {
			t.Fatalf("VIOLATED every-change-planned-once: re-creation: %d changes out", len(out))
		}
		if pos(out, modC) > pos(out, dropOld) {
			t.Fatalf("VIOLATED drop fk before drop table (table re-created): input order %v planned the drop of the table first", perm)
		}
		if pos(out, dropOld) > pos(out, three[0]) {
			t.Fatalf("VIOLATED table dropped before it is re-created: input order %v", perm)
		}
	}
}
