package cmdapi

// Replay for C13 / cmdapi.(*tx).driverFor#post:dry-run-opens-nothing: under --dry-run the
// executor must be handed the dry-run wrappers for every effective tx mode, set by flag or
// by a file directive.

import (
	"context"
	"testing"

	"ariga.io/atlas/sql/migrate"
	"ariga.io/atlas/sql/sqlclient"
	_ "ariga.io/atlas/sql/sqlite"
	_ "github.com/mattn/go-sqlite3"
)

func TestGvcReplayDryRunDriverFor(t *testing.T) {
	c, err := sqlclient.Open(context.Background(), "sqlite://file?mode=memory&cache=shared&_fk=1")
	if err != nil {
		t.Skip(err)
	}
	defer c.Close()
	for _, mode := range []string{txModeNone, txModeFile, txModeAll} {
		for _, directive := range []string{"", "-- atlas:txmode none\n\n", "-- atlas:txmode file\n\n"} {
			if mode == txModeAll && directive == "-- atlas:txmode file\n\n" {
				continue // rejected combination
			}
			x := &tx{dryRun: true, mode: mode, c: c, rrw: &migrate.NopRevisionReadWriter{}}
			f := migrate.NewLocalFile("1.sql", []byte(directive+"CREATE TABLE t(a int);\n"))
			d, rrw, err := x.driverFor(context.Background(), f)
			if err != nil {
				t.Fatalf("VIOLATED dry-run-opens-nothing: mode=%s directive=%q: error %v", mode, directive, err)
			}
			if _, ok := d.(*dryRunDriver); !ok {
				t.Fatalf("VIOLATED dry-run-opens-nothing: mode=%s directive=%q: executor gets the live driver %T under --dry-run", mode, directive, d)
			}
			if _, ok := rrw.(*dryRunRevisions); !ok {
				t.Fatalf("VIOLATED dry-run-opens-nothing: mode=%s directive=%q: executor gets the live revision writer %T under --dry-run", mode, directive, rrw)
			}
			if x.tx != nil {
				t.Fatalf("VIOLATED dry-run-opens-nothing: mode=%s directive=%q: a transaction was opened under --dry-run", mode, directive)
			}
		}
	}
}
