package cmdapi

// Replay for C13 / cmdapi.(*tx).mayCommit#post:per-file-transaction-is-committed:
// global --tx-mode none, two files that ask for `txmode file` by directive.

import (
	"database/sql"
	"os"
	"path/filepath"
	"testing"

	"ariga.io/atlas/sql/migrate"
	_ "ariga.io/atlas/sql/sqlite"
	_ "github.com/mattn/go-sqlite3"
)

func TestGvcReplayMayCommitFileDirective(t *testing.T) {
	p := t.TempDir()
	dir, err := migrate.NewLocalDir(p)
	if err != nil {
		t.Skip(err)
	}
	if err := dir.WriteFile("1_a.sql", []byte("-- atlas:txmode file\n\nCREATE TABLE a (id int);\n")); err != nil {
		t.Skip(err)
	}
	if err := dir.WriteFile("2_b.sql", []byte("-- atlas:txmode file\n\nCREATE TABLE b (id int);\n")); err != nil {
		t.Skip(err)
	}
	sum, err := dir.Checksum()
	if err != nil {
		t.Skip(err)
	}
	if err := migrate.WriteSumFile(dir, sum); err != nil {
		t.Skip(err)
	}
	dbf := filepath.Join(t.TempDir(), "apply.db")
	out, err := runCmd(migrateApplyCmd(), "--dir", "file://"+p, "--url", "sqlite://"+dbf+"?_fk=1", "--tx-mode", "none")
	if err != nil {
		t.Fatalf("VIOLATED per-file-transaction-is-committed: apply failed: %v\n%s", err, out)
	}
	db, err := sql.Open("sqlite3", "file:"+dbf)
	if err != nil {
		t.Skip(err)
	}
	defer db.Close()
	for _, tbl := range []string{"a", "b"} {
		var n int
		if err := db.QueryRow("SELECT count(*) FROM sqlite_master WHERE type='table' AND name=?", tbl).Scan(&n); err != nil || n != 1 {
			t.Fatalf("VIOLATED per-file-transaction-is-committed: table %s is not there after a successful apply (n=%d err=%v)", tbl, n, err)
		}
	}
	_ = os.Remove(dbf)
}
