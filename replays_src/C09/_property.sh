#!/bin/bash
exec /verif/replays_src/run_overlay_test.sh /repo sql/migrate /verif/replays_src/C10/execute_progress_test.go TestGvcReplayExecuteProgress
