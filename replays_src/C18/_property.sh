#!/bin/bash
# property-level replay for C18: the bounded enumeration against the real analyzer and span code,
# accepting the open known findings of the property (ids from the committed known_findings.json)
known=$(jq -r '[.findings[] | select(.property=="C18" and .status=="open" and .id!=null) | .id] | join(",")' /verif/known_findings.json)
GVC_KNOWN="$known" exec /verif/replays_src/run_overlay_test.sh /repo sql/sqlcheck/destructive /verif/replays_src/C18/spans_bounded_test.go TestGvcBoundedSpans
