#!/bin/bash
# bounded check of the span bookkeeping behind the destructive analyzer (see the test's header)
exec /verif/replays_src/run_overlay_test.sh /repo sql/sqlcheck/destructive /verif/replays_src/C18/spans_bounded_test.go TestGvcBoundedSpans
