package destructive

// Bounded stand-in for the part of C18 that the contracts do not reach: the life-span
// bookkeeping (sqlcheck.File.loadSpans) the analyzer relies on.  All valid histories of at
// most 4 statements (CREATE TABLE / DROP TABLE) over two table names and both initial states
// (table existed before the file or not) are fed to the real Analyzer with the real span code;
// reference: a DROP TABLE must be flagged iff the table instance it drops existed before the
// file (no CREATE of that name earlier in the file), and nothing else is flagged.
// BOUND: <= 4 statements, 2 tables.  Labelled bounded in the evidence, never counted as proved.
//
// GVC_KNOWN=F11 accepts the known finding (life-spans are kept per table name and per file: for
// a name that is dropped and re-created in the same file the drop of the pre-existing table
// can go unreported, e.g. DROP t; CREATE t; DROP t, and the drop of a table created in the
// file can be reported, e.g. CREATE t; DROP t; CREATE t) and fails on any other disagreement.

import (
	"context"
	"fmt"
	"os"
	"strings"
	"testing"

	"ariga.io/atlas/sql/migrate"
	"ariga.io/atlas/sql/schema"
	"ariga.io/atlas/sql/sqlcheck"
)

type gvcOp struct {
	add  bool
	name string
}

func TestGvcBoundedSpans(t *testing.T) {
	known := strings.Contains(","+os.Getenv("GVC_KNOWN")+",", ",F11,")
	names := []string{"t", "u"}
	var ops []gvcOp
	for _, n := range names {
		ops = append(ops, gvcOp{true, n}, gvcOp{false, n})
	}
	// a column c of a table w that exists before the file and is never dropped: ADD/DROP COLUMN
	ops = append(ops, gvcOp{true, "w.c"}, gvcOp{false, "w.c"})
	knownHits, total := 0, 0
	var rec func(seq []gvcOp)
	check := func(seq []gvcOp, initial map[string]bool) {
		// validity + expectation
		exists := map[string]bool{}
		for k, v := range initial {
			exists[k] = v
		}
		addedBefore := map[string]bool{}
		var want []int
		for i, op := range seq {
			if op.add {
				if exists[op.name] {
					return // invalid history
				}
				exists[op.name] = true
				addedBefore[op.name] = true
			} else {
				if !exists[op.name] {
					return
				}
				exists[op.name] = false
				if !addedBefore[op.name] {
					want = append(want, i)
				}
			}
		}
		total++
		sch := schema.New("main")
		tables := map[string]*schema.Table{}
		for _, n := range names {
			tables[n] = schema.NewTable(n).SetSchema(sch).AddColumns(schema.NewIntColumn("id", "int"))
		}
		w := schema.NewTable("w").SetSchema(sch).AddColumns(schema.NewIntColumn("id", "int"))
		wc := schema.NewIntColumn("c", "int")
		f := &sqlcheck.File{File: migrate.NewLocalFile("1.sql", nil)}
		for i, op := range seq {
			var c schema.Change
			switch {
			case op.name == "w.c" && op.add:
				c = &schema.ModifyTable{T: w, Changes: []schema.Change{&schema.AddColumn{C: wc}}}
			case op.name == "w.c":
				c = &schema.ModifyTable{T: w, Changes: []schema.Change{&schema.DropColumn{C: wc}}}
			case op.add:
				c = &schema.AddTable{T: tables[op.name]}
			default:
				c = &schema.DropTable{T: tables[op.name]}
			}
			f.Changes = append(f.Changes, &sqlcheck.Change{Changes: schema.Changes{c}, Stmt: &migrate.Stmt{Pos: 100 + i, Text: fmt.Sprint(op)}})
		}
		var got []int
		az := &Analyzer{}
		_ = az.Analyze(context.Background(), &sqlcheck.Pass{File: f, Reporter: sqlcheck.ReportWriterFunc(func(r sqlcheck.Report) {
			for _, d := range r.Diagnostics {
				got = append(got, d.Pos-100)
			}
		})})
		if fmt.Sprint(got) == fmt.Sprint(want) {
			return
		}
		// the known class: every statement on which analyzer and reference disagree concerns a
		// table name that is dropped and re-created later in the same file (two life-spans of
		// one name; the span bookkeeping is per name and per file)
		recreated := map[string]bool{}
		dropped := map[string]bool{}
		for _, op := range seq {
			if !op.add {
				dropped[op.name] = true
			} else if dropped[op.name] {
				recreated[op.name] = true
			}
		}
		inSet := func(xs []int, x int) bool {
			for _, y := range xs {
				if y == x {
					return true
				}
			}
			return false
		}
		// what the per-name, per-file span bookkeeping yields (the finding): a drop is reported
		// iff the final span of its name is not "temporary" (ADD assigns Added, DROP ors Dropped)
		final := map[string]int{}
		for _, op := range seq {
			if op.add {
				final[op.name] = 1
			} else {
				final[op.name] |= 2
			}
		}
		isKnown := true
		for i := range seq {
			if inSet(got, i) == inSet(want, i) {
				continue
			}
			bySpans := !seq[i].add && final[seq[i].name] != 3
			if !recreated[seq[i].name] || inSet(got, i) != bySpans {
				isKnown = false
			}
		}
		if known && isKnown {
			knownHits++
			return
		}
		var s []string
		for _, op := range seq {
			if op.add {
				s = append(s, "CREATE "+op.name)
			} else {
				s = append(s, "DROP "+op.name)
			}
		}
		t.Fatalf("VIOLATED drops-of-preexisting-tables-are-flagged: initial=%v file=[%s]: flagged statements %v, want %v", initial, strings.Join(s, "; "), got, want)
	}
	rec = func(seq []gvcOp) {
		if len(seq) > 0 {
			for _, it := range []bool{false, true} {
				for _, iu := range []bool{false, true} {
					for _, ic := range []bool{false, true} {
						check(seq, map[string]bool{"t": it, "u": iu, "w.c": ic})
					}
				}
			}
		}
		if len(seq) == 4 {
			return
		}
		for _, op := range ops {
			rec(append(append([]gvcOp(nil), seq...), op))
		}
	}
	rec(nil)
	t.Logf("%d valid histories checked, %d accepted as the known finding F11", total, knownHits)
}
