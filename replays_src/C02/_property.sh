#!/bin/bash
# property-level replay for C02: exactness of the column walker and of the foreign-key bit-set through the real SQLite differ
exec /verif/replays_src/run_overlay_test.sh /repo sql/internal/sqlx /verif/replays_src/C02/diff_exact_test.go 'TestGvcReplay(DiffExact|FKChange|ColumnFlags)'
