package sqlx_test

// Replay for C02 (columnDiff, fkChange through the real SQLite differ): for every pair of small
// tables the change set holds exactly one DropColumn per vanished column, one AddColumn per new
// column, one ModifyColumn per column whose type changed, and nothing else; a modified foreign
// key carries exactly the ChangeKind bits of what was edited.

import (
	"fmt"
	"testing"

	"ariga.io/atlas/sql/schema"
	"ariga.io/atlas/sql/sqlite"
)

func gvcTable(names []string, types map[string]string) *schema.Table {
	t := schema.NewTable("t").SetSchema(schema.New("main"))
	for _, n := range names {
		ty := types[n]
		if ty == "text" {
			t.AddColumns(schema.NewStringColumn(n, "text"))
		} else {
			t.AddColumns(schema.NewIntColumn(n, "integer"))
		}
	}
	return t
}

func TestGvcReplayDiffExact(t *testing.T) {
	all := []string{"a", "b", "c"}
	var subsets [][]string
	for m := 0; m < 8; m++ {
		var s []string
		for i, n := range all {
			if m&(1<<i) != 0 {
				s = append(s, n)
			}
		}
		subsets = append(subsets, s)
		if len(s) == 2 { // also the other order
			subsets = append(subsets, []string{s[1], s[0]})
		}
	}
	typesets := []map[string]string{{}, {"a": "text"}, {"b": "text", "c": "text"}}
	for _, fn := range subsets {
		for _, tn := range subsets {
			for _, ft := range typesets {
				for _, tt := range typesets {
					from, to := gvcTable(fn, ft), gvcTable(tn, tt)
					changes, err := sqlite.DefaultDiff.TableDiff(from, to)
					if err != nil {
						t.Fatalf("VIOLATED diff fails: %v", err)
					}
					want := map[string]string{}
					for _, n := range fn {
						if _, ok := to.Column(n); !ok {
							want[n] = "drop"
						} else if (ft[n] == "text") != (tt[n] == "text") {
							want[n] = "modify"
						}
					}
					for _, n := range tn {
						if _, ok := from.Column(n); !ok {
							want[n] = "add"
						}
					}
					got := map[string]string{}
					for _, c := range changes {
						var n, k string
						switch c := c.(type) {
						case *schema.DropColumn:
							n, k = c.C.Name, "drop"
						case *schema.AddColumn:
							n, k = c.C.Name, "add"
						case *schema.ModifyColumn:
							n, k = c.From.Name, "modify"
						default:
							t.Fatalf("VIOLATED nothing-but-column-changes: %T for %v -> %v", c, fn, tn)
						}
						if got[n] != "" {
							t.Fatalf("VIOLATED at-most-one-change-per-column: column %s reported twice for %v%v -> %v%v", n, fn, ft, tn, tt)
						}
						got[n] = k
					}
					if fmt.Sprint(got) != fmt.Sprint(want) {
						t.Fatalf("VIOLATED diff exact: %v%v -> %v%v: got %v, want %v", fn, ft, tn, tt, got, want)
					}
				}
			}
		}
	}
}

func TestGvcReplayFKChange(t *testing.T) {
	s := schema.New("main")
	p1 := schema.NewTable("p1").SetSchema(s).AddColumns(schema.NewIntColumn("id", "integer"), schema.NewIntColumn("id2", "integer"))
	p2 := schema.NewTable("p2").SetSchema(s).AddColumns(schema.NewIntColumn("id", "integer"), schema.NewIntColumn("id2", "integer"))
	type fkSpec struct {
		parent   *schema.Table
		cols     []int // child columns
		refs     []int // parent columns
		upd, del schema.ReferenceOption
	}
	build := func(sp fkSpec) *schema.Table {
		c := schema.NewTable("c").SetSchema(s).AddColumns(schema.NewIntColumn("x", "integer"), schema.NewIntColumn("y", "integer"))
		fk := schema.NewForeignKey("fk").SetTable(c).SetRefTable(sp.parent).SetOnUpdate(sp.upd).SetOnDelete(sp.del)
		for _, i := range sp.cols {
			fk.AddColumns(c.Columns[i])
		}
		for _, i := range sp.refs {
			fk.AddRefColumns(sp.parent.Columns[i])
		}
		c.AddForeignKeys(fk)
		return c
	}
	base := fkSpec{p1, []int{0}, []int{0}, schema.NoAction, schema.NoAction}
	variants := []fkSpec{
		base,
		{p2, []int{0}, []int{0}, schema.NoAction, schema.NoAction},
		{p1, []int{1}, []int{0}, schema.NoAction, schema.NoAction},
		{p1, []int{0}, []int{1}, schema.NoAction, schema.NoAction},
		{p1, []int{0, 1}, []int{0, 1}, schema.NoAction, schema.NoAction},
		{p1, []int{0}, []int{0}, schema.Cascade, schema.NoAction},
		{p1, []int{0}, []int{0}, schema.NoAction, schema.SetNull},
		{p2, []int{1}, []int{1}, schema.Cascade, schema.Cascade},
	}
	eqInts := func(a, b []int) bool { return fmt.Sprint(a) == fmt.Sprint(b) }
	for i, a := range variants {
		for j, b := range variants {
			changes, err := sqlite.DefaultDiff.TableDiff(build(a), build(b))
			if err != nil {
				t.Fatalf("VIOLATED diff fails: %v", err)
			}
			var want schema.ChangeKind
			if a.parent != b.parent {
				want |= schema.ChangeRefTable | schema.ChangeRefColumn
			} else if !eqInts(a.refs, b.refs) {
				want |= schema.ChangeRefColumn
			}
			if !eqInts(a.cols, b.cols) {
				want |= schema.ChangeColumn
			}
			if a.upd != b.upd {
				want |= schema.ChangeUpdateAction
			}
			if a.del != b.del {
				want |= schema.ChangeDeleteAction
			}
			var got schema.ChangeKind
			n := 0
			for _, c := range changes {
				if m, ok := c.(*schema.ModifyForeignKey); ok {
					got = m.Change
					n++
				} else {
					t.Fatalf("VIOLATED nothing-else: variant %d -> %d reports %T", i, j, c)
				}
			}
			if n > 1 || (want == schema.NoChange) != (n == 0) || got != want {
				t.Fatalf("VIOLATED fk bit-set: variant %d -> %d: %d changes, kind %b, want %b", i, j, n, got, want)
			}
		}
	}
}

// Kind flags of a modified column, identity of the two columns in the change, and the empty
// self-diff (columns with and without defaults), through the real SQLite differ.
func TestGvcReplayColumnFlags(t *testing.T) {
	mk := func(null bool, def string) *schema.Table {
		tb := schema.NewTable("t").SetSchema(schema.New("main"))
		c := schema.NewIntColumn("a", "integer")
		c.Type.Null = null
		if def != "" {
			c.SetDefault(&schema.RawExpr{X: def})
		}
		return tb.AddColumns(c)
	}
	type v struct {
		null bool
		def  string
	}
	vs := []v{{false, ""}, {true, ""}, {false, "1"}, {true, "2"}, {false, "''"}}
	for _, a := range vs {
		for _, b := range vs {
			from, to := mk(a.null, a.def), mk(b.null, b.def)
			changes, err := sqlite.DefaultDiff.TableDiff(from, to)
			if err != nil {
				t.Fatalf("VIOLATED diff fails: %v", err)
			}
			var want schema.ChangeKind
			if a.null != b.null {
				want |= schema.ChangeNull
			}
			if a.def != b.def {
				want |= schema.ChangeDefault
			}
			if want == schema.NoChange {
				if len(changes) != 0 {
					t.Fatalf("VIOLATED unchanged column reported: %+v -> %+v: %d changes", a, b, len(changes))
				}
				continue
			}
			if len(changes) != 1 {
				t.Fatalf("VIOLATED one change per edited column: %+v -> %+v: %d changes", a, b, len(changes))
			}
			m, ok := changes[0].(*schema.ModifyColumn)
			if !ok || m.From != from.Columns[0] || m.To != to.Columns[0] {
				t.Fatalf("VIOLATED modification pairs the two columns: %+v -> %+v: %T", a, b, changes[0])
			}
			if m.Change != want {
				t.Fatalf("VIOLATED column kind flags: %+v -> %+v: got %b, want %b", a, b, m.Change, want)
			}
		}
		self := mk(a.null, a.def)
		if changes, err := sqlite.DefaultDiff.TableDiff(self, self); err != nil || len(changes) != 0 {
			t.Fatalf("VIOLATED self-diff is empty: %+v: %d changes, err %v", a, len(changes), err)
		}
	}
}
