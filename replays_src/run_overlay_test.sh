#!/bin/bash
# usage: run_overlay_test.sh <module dir> <package dir (relative)> <test file> <test name>
# Runs an in-package test against the real code without writing into /repo (go test -overlay).
# exit 1 = the test failed (the real code violates the clause), 0 = passed, 2 = could not run.
set -u
mod=$1; pkg=$2; file=$3; name=$4
tmp=$(mktemp -d)
trap 'rm -rf "$tmp"' EXIT
dst="$mod/$pkg/zz_gvc_replay_test.go"
printf '{"Replace": {"%s": "%s"}}' "$dst" "$file" > "$tmp/ov.json"
cd "$mod/$pkg" || exit 2
if [ "$mod" = "/repo/cmd/atlas" ]; then
  out=$(GOFLAGS=-mod=mod GOPROXY=off GIT_CONFIG_GLOBAL=/dev/null go test -overlay "$tmp/ov.json" -vet=off -count=1 -timeout ${GVC_REPLAY_TIMEOUT:-300s} -run "^$name\$" . 2>&1)
else
  out=$(GOFLAGS=-mod=mod GOPROXY=off GOSUMDB=off GOTOOLCHAIN=local go test -overlay "$tmp/ov.json" -vet=off -count=1 -timeout ${GVC_REPLAY_TIMEOUT:-300s} -run "^$name\$" . 2>&1)
fi
rc=$?
echo "$out" | tail -15
if echo "$out" | grep -q "^--- FAIL"; then exit 1; fi
if [ $rc -eq 0 ]; then exit 0; fi
exit 2
