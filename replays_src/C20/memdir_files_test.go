package migrate_test

// Replay for C20 (MemDir.Files): the listing of an in-memory directory must be the same on
// every call (Go randomises map iteration order per range statement): sorted by name, every
// .sql file, nothing else.  200 calls on directories of 1..24 files.

import (
	"fmt"
	"sort"
	"testing"

	"ariga.io/atlas/sql/migrate"
)

func TestGvcReplayMemDirFiles(t *testing.T) {
	for n := 1; n <= 24; n++ {
		d := &migrate.MemDir{}
		var want []string
		for i := 0; i < n; i++ {
			name := fmt.Sprintf("%d_%c.sql", (i*7)%n, 'a'+i%5)
			if err := d.WriteFile(name, []byte("select 1;")); err != nil {
				t.Skip(err)
			}
		}
		_ = d.WriteFile("README.md", []byte("x"))
		fs0, _ := d.Files()
		for _, f := range fs0 {
			want = append(want, f.Name())
		}
		sorted := append([]string(nil), want...)
		sort.Strings(sorted)
		seen := map[string]bool{}
		for _, s := range want {
			seen[s] = true
		}
		for i := 0; i < n; i++ {
			if name := fmt.Sprintf("%d_%c.sql", (i*7)%n, 'a'+i%5); !seen[name] {
				t.Fatalf("VIOLATED every-sql-file-listed: %s missing from %v", name, want)
			}
		}
		if seen["README.md"] {
			t.Fatalf("VIOLATED only-sql-files-of-the-directory: %v", want)
		}
		if fmt.Sprint(sorted) != fmt.Sprint(want) {
			t.Fatalf("VIOLATED sorted-by-name: %v", want)
		}
		for r := 0; r < 8; r++ {
			fs, _ := d.Files()
			var got []string
			for _, f := range fs {
				got = append(got, f.Name())
			}
			if fmt.Sprint(got) != fmt.Sprint(want) {
				t.Fatalf("VIOLATED sorted-by-name (listing differs between calls): %v vs %v", got, want)
			}
		}
	}
}
