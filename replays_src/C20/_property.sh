#!/bin/bash
exec /verif/replays_src/run_overlay_test.sh /repo sql/migrate /verif/replays_src/C20/memdir_files_test.go TestGvcReplayMemDirFiles
