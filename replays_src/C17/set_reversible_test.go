package sqlx

// Replay for C17 (SetReversible / Change.ReverseStmts): all plans of up to 3 changes whose
// Reverse is one of {nil, "", "stmt", []string{}, []string{a}, []string{a,b}, 42}.  A plan is
// reversible exactly when every change carries at least one reverse statement; an unexpected
// Reverse type is an error and leaves the flag alone.  Bounded enumeration, used as a replay.

import (
	"testing"

	"ariga.io/atlas/sql/migrate"
)

func TestGvcReplaySetReversible(t *testing.T) {
	revs := []any{nil, "DROP 1", []string{}, []string{"A"}, []string{"A", "B"}, 42}
	count := func(r any) (int, bool) {
		switch r := r.(type) {
		case nil:
			return 0, true
		case string:
			return 1, true // as ReverseStmts: a string is one statement
		case []string:
			return len(r), true
		}
		return 0, false
	}
	var rec func(cs []*migrate.Change)
	rec = func(cs []*migrate.Change) {
		if len(cs) > 0 {
			for _, start := range []bool{false, true} {
				p := &migrate.Plan{Changes: cs, Reversible: start}
				err := SetReversible(p)
				want, bad := true, false
				for _, c := range cs {
					n, ok := count(c.Reverse)
					if !ok {
						bad = true
					}
					if n == 0 {
						want = false
					}
				}
				switch {
				case bad && err == nil:
					t.Fatalf("VIOLATED error-iff-bad-type: plan %v: no error", dump(cs))
				case bad && p.Reversible != start:
					t.Fatalf("VIOLATED error-leaves-flag: plan %v", dump(cs))
				case !bad && err != nil:
					t.Fatalf("VIOLATED error-iff-bad-type: plan %v: %v", dump(cs), err)
				case !bad && p.Reversible != want:
					t.Fatalf("VIOLATED reversible-iff-all: plan %v reported reversible=%v, want %v", dump(cs), p.Reversible, want)
				}
			}
		}
		if len(cs) == 3 {
			return
		}
		for _, r := range revs {
			rec(append(append([]*migrate.Change(nil), cs...), &migrate.Change{Cmd: "X", Reverse: r}))
		}
	}
	rec(nil)
}

func dump(cs []*migrate.Change) (out []any) {
	for _, c := range cs {
		out = append(out, c.Reverse)
	}
	return
}
