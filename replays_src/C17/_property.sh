#!/bin/bash
exec /verif/replays_src/run_overlay_test.sh /repo sql/internal/sqlx /verif/replays_src/C17/set_reversible_test.go TestGvcReplaySetReversible
