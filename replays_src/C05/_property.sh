#!/bin/bash
exec /verif/replays_src/run_overlay_test.sh /repo/cmd/atlas internal/cmdapi /verif/replays_src/C05/sqlite_rows_test.go TestGvcReplaySQLiteRowsKept
