package cmdapi

// Replay for C05: on a real SQLite database, planning and applying table changes on a
// populated table keeps every row, and every column that exists before and after (same name,
// or renamed) keeps its values - for in-place changes and for table rebuilds.  A handful of
// change sets chosen to drive every branch of sqlite.copyRows and alterable.

import (
	"context"
	"database/sql"
	"fmt"
	"path/filepath"
	"testing"

	"ariga.io/atlas/sql/schema"
	"ariga.io/atlas/sql/sqlite"

	_ "github.com/mattn/go-sqlite3"
)

func TestGvcReplaySQLiteRowsKept(t *testing.T) {
	ctx := context.Background()
	type tc struct {
		name    string
		changes func(tbl *schema.Table) []schema.Change
		// column name before -> column name after, for columns whose values must survive
		keep map[string]string
	}
	col := func(tbl *schema.Table, n string) *schema.Column { c, _ := tbl.Column(n); return c }
	cases := []tc{
		{"add column in place", func(tbl *schema.Table) []schema.Change {
			return []schema.Change{&schema.AddColumn{C: schema.NewNullIntColumn("d", "integer")}}
		}, map[string]string{"id": "id", "a": "a", "b": "b", "c": "c"}},
		{"modify type (rebuild)", func(tbl *schema.Table) []schema.Change {
			from := col(tbl, "b")
			to := schema.NewNullStringColumn("b", "text")
			return []schema.Change{&schema.ModifyColumn{From: from, To: to, Change: schema.ChangeType}}
		}, map[string]string{"id": "id", "a": "a", "c": "c"}},
		{"new default on a nullable column (rebuild)", func(tbl *schema.Table) []schema.Change {
			from := col(tbl, "c")
			to := schema.NewNullStringColumn("c", "text").SetDefault(&schema.Literal{V: "'guest'"})
			return []schema.Change{&schema.ModifyColumn{From: from, To: to, Change: schema.ChangeDefault}}
		}, map[string]string{"id": "id", "a": "a", "b": "b", "c": "c"}},
		{"drop column (rebuild)", func(tbl *schema.Table) []schema.Change {
			return []schema.Change{&schema.DropColumn{C: col(tbl, "c")}}
		}, map[string]string{"id": "id", "a": "a", "b": "b"}},
		{"drop + add + modify (rebuild)", func(tbl *schema.Table) []schema.Change {
			return []schema.Change{
				&schema.DropColumn{C: col(tbl, "c")},
				&schema.AddColumn{C: schema.NewNullStringColumn("e", "text")},
				&schema.ModifyColumn{From: col(tbl, "a"), To: schema.NewNullStringColumn("a", "text"), Change: schema.ChangeNull},
			}
		}, map[string]string{"id": "id", "a": "a", "b": "b"}},
		{"many changes (rebuild)", func(tbl *schema.Table) []schema.Change {
			return []schema.Change{
				&schema.DropColumn{C: col(tbl, "c")},
				&schema.AddColumn{C: schema.NewNullStringColumn("e", "text")},
				&schema.AddColumn{C: schema.NewNullStringColumn("f", "text")},
				&schema.AddColumn{C: schema.NewNullStringColumn("g", "text")},
			}
		}, map[string]string{"id": "id", "a": "a", "b": "b"}},
	}
	for _, c := range cases {
		db, err := sql.Open("sqlite3", "file:"+filepath.Join(t.TempDir(), "c05.db")+"?_fk=1")
		if err != nil {
			t.Skip(err)
		}
		for _, s := range []string{
			"CREATE TABLE t (id integer primary key, a text not null default 'x', b integer null, c text null default 'd')",
			"INSERT INTO t (id, a, b, c) VALUES (1, 'one', 10, 'p'), (2, 'two', NULL, 'q'), (3, 'three', 30, NULL)",
		} {
			if _, err := db.Exec(s); err != nil {
				t.Skip(err)
			}
		}
		drv, err := sqlite.Open(db)
		if err != nil {
			t.Skip(err)
		}
		before := map[string][]string{}
		for from := range c.keep {
			before[from] = gvcColumnValues(t, db, from)
		}
		sch, err := drv.InspectSchema(ctx, "main", nil)
		if err != nil {
			t.Skip(err)
		}
		tbl, ok := sch.Table("t")
		if !ok {
			t.Skip("no table")
		}
		desired := *tbl
		desired.Columns = nil
		inner := c.changes(tbl)
		dropped := map[string]bool{}
		modified := map[string]*schema.Column{}
		for _, ch := range inner {
			switch ch := ch.(type) {
			case *schema.DropColumn:
				dropped[ch.C.Name] = true
			case *schema.ModifyColumn:
				modified[ch.From.Name] = ch.To
			}
		}
		for _, cl := range tbl.Columns {
			switch {
			case dropped[cl.Name]:
			case modified[cl.Name] != nil:
				desired.Columns = append(desired.Columns, modified[cl.Name])
			default:
				desired.Columns = append(desired.Columns, cl)
			}
		}
		for _, ch := range inner {
			if a, ok := ch.(*schema.AddColumn); ok {
				desired.Columns = append(desired.Columns, a.C)
			}
		}
		if err := drv.ApplyChanges(ctx, []schema.Change{&schema.ModifyTable{T: &desired, Changes: inner}}); err != nil {
			t.Logf("%s: apply refused: %v", c.name, err)
			db.Close()
			continue
		}
		var n int
		if err := db.QueryRow("SELECT count(*) FROM t").Scan(&n); err != nil || n != 3 {
			t.Fatalf("VIOLATED rows-kept: %s: %d rows after the change (err %v), 3 before", c.name, n, err)
		}
		for from, to := range c.keep {
			after := gvcColumnValues(t, db, to)
			if fmt.Sprint(after) != fmt.Sprint(before[from]) {
				t.Fatalf("VIOLATED every-surviving-column-receives-its-old-values: %s: column %s was %v, is %v", c.name, from, before[from], after)
			}
		}
		db.Close()
	}
}

func gvcColumnValues(t *testing.T, db *sql.DB, col string) (out []string) {
	rows, err := db.Query("SELECT ifnull(cast(`" + col + "` as text), '<null>') FROM t ORDER BY id")
	if err != nil {
		t.Fatalf("VIOLATED every-surviving-column-receives-its-old-values: column %s cannot be read: %v", col, err)
	}
	defer rows.Close()
	for rows.Next() {
		var s string
		if err := rows.Scan(&s); err != nil {
			t.Skip(err)
		}
		out = append(out, s)
	}
	return
}
