package migrate_test

// Replay for C12 (Executor.Execute): all files of up to 4 statements x every partial progress
// k x every edit (change / insert / delete / swap at every index, truncation to every length).
// An edit that touches the applied part must be refused with HistoryChangedError, execute
// nothing and leave the stored revision untouched; an edit of the tail only must resume.
// Self-contained (own driver and revision store); bounded enumeration, used as a replay.

import (
	"context"
	"database/sql"
	"errors"
	"fmt"
	"reflect"
	"strings"
	"testing"

	"ariga.io/atlas/sql/migrate"
)

type gvcDrv struct {
	migrate.Driver
	executed []string
	failAt   int // 1-based statement ordinal that fails; 0 = never
}

func (d *gvcDrv) ExecContext(_ context.Context, q string, _ ...any) (sql.Result, error) {
	if d.failAt > 0 && len(d.executed)+1 == d.failAt {
		return nil, errors.New("boom")
	}
	d.executed = append(d.executed, q)
	return nil, nil
}

type gvcRevs struct{ m map[string]*migrate.Revision }

func (r *gvcRevs) Ident() *migrate.TableIdent { return &migrate.TableIdent{} }
func (r *gvcRevs) ReadRevisions(context.Context) (out []*migrate.Revision, _ error) {
	for _, v := range r.m {
		c := *v
		out = append(out, &c)
	}
	return out, nil
}
func (r *gvcRevs) ReadRevision(_ context.Context, v string) (*migrate.Revision, error) {
	if x, ok := r.m[v]; ok {
		c := *x
		c.PartialHashes = append([]string(nil), x.PartialHashes...)
		return &c, nil
	}
	return nil, migrate.ErrRevisionNotExist
}
func (r *gvcRevs) WriteRevision(_ context.Context, x *migrate.Revision) error {
	c := *x
	c.PartialHashes = append([]string(nil), x.PartialHashes...)
	r.m[x.Version] = &c
	return nil
}
func (r *gvcRevs) DeleteRevision(_ context.Context, v string) error { delete(r.m, v); return nil }

func gvcStmts(n int) []string {
	s := make([]string, n)
	for i := range s {
		s[i] = fmt.Sprintf("CREATE TABLE t%d(c int);", i)
	}
	return s
}

// gvcFile (re)writes the file into the directory, re-hashes it and returns the directory's file.
func gvcFile(t *testing.T, dir *migrate.MemDir, stmts []string) migrate.File {
	if err := dir.WriteFile("1_f.sql", []byte(strings.Join(stmts, "\n")+"\n")); err != nil {
		t.Skip(err)
	}
	sum, err := dir.Checksum()
	if err != nil {
		t.Skip(err)
	}
	if err := migrate.WriteSumFile(dir, sum); err != nil {
		t.Skip(err)
	}
	fs, err := dir.Files()
	if err != nil || len(fs) != 1 {
		t.Skip("setup: files", err)
	}
	return fs[0]
}

// gvcEdits lists (edited statements, index of the first statement that differs from the original or was removed).
func gvcEdits(orig []string) (out [][]string, first []int) {
	n := len(orig)
	add := func(s []string) {
		f := 0
		for f < len(s) && f < n && s[f] == orig[f] {
			f++
		}
		if f == n && len(s) == n {
			return // no edit
		}
		out = append(out, s)
		first = append(first, f)
	}
	for i := 0; i < n; i++ {
		c := append([]string(nil), orig...)
		c[i] = "CREATE TABLE changed(c int);"
		add(c)
		d := append(append([]string(nil), orig[:i]...), orig[i+1:]...)
		add(d)
		if i+1 < n {
			s := append([]string(nil), orig...)
			s[i], s[i+1] = s[i+1], s[i]
			add(s)
		}
	}
	for i := 0; i <= n; i++ {
		ins := append(append(append([]string(nil), orig[:i]...), "CREATE TABLE inserted(c int);"), orig[i:]...)
		add(ins)
		if i < n {
			add(append([]string(nil), orig[:i]...))
		}
	}
	return
}

func TestGvcReplayExecuteHistory(t *testing.T) {
	ctx := context.Background()
	for n := 1; n <= 4; n++ {
		for k := 1; k < n; k++ {
			edits, first := gvcEdits(gvcStmts(n))
			for ei, ed := range edits {
				drv, revs := &gvcDrv{failAt: k + 1}, &gvcRevs{m: map[string]*migrate.Revision{}}
				dir := &migrate.MemDir{}
				ex, err := migrate.NewExecutor(drv, dir, revs)
				if err != nil {
					t.Skip(err)
				}
				if err := ex.Execute(ctx, gvcFile(t, dir, gvcStmts(n))); err == nil {
					t.Skip("setup: expected the injected failure")

				}
				before, _ := revs.ReadRevision(ctx, "1")
				if before == nil || before.Applied != k {
					t.Skipf("setup: want progress %d, have %+v", k, before)
				}
				drv.executed, drv.failAt = nil, 0
				var got error
				func() {
					defer func() {
						if r := recover(); r != nil {
							t.Fatalf("VIOLATED never-crashes: n=%d k=%d edit#%d %q: panic %v", n, k, ei, ed, r)
						}
					}()
					got = ex.Execute(ctx, gvcFile(t, dir, ed))
				}()
				after, _ := revs.ReadRevision(ctx, "1")
				if first[ei] < k { // the applied part changed
					var hc migrate.HistoryChangedError
					if !errors.As(got, &hc) {
						t.Fatalf("VIOLATED changed-history-refused: n=%d k=%d edit %q: want HistoryChangedError, got %v", n, k, ed, got)
					}
					if len(drv.executed) != 0 {
						t.Fatalf("VIOLATED changed-history-refused: n=%d k=%d edit %q: executed %q", n, k, ed, drv.executed)
					}
					// the bookkeeping write refreshes the timestamps; progress, hashes and error are the history
					before.ExecutedAt, after.ExecutedAt = after.ExecutedAt, after.ExecutedAt
					before.ExecutionTime = after.ExecutionTime
					if !reflect.DeepEqual(before, after) {
						t.Fatalf("VIOLATED changed-history-refused: n=%d k=%d edit %q: stored revision changed\nbefore %+v\nafter  %+v", n, k, ed, before, after)
					}
					continue
				}
				// only the tail was edited: resume with the new tail
				if got != nil {
					t.Fatalf("VIOLATED tail-edit-resumes: n=%d k=%d edit %q: %v", n, k, ed, got)
				}
				if strings.Join(drv.executed, "|") != strings.Join(ed[k:], "|") {
					t.Fatalf("VIOLATED tail-edit-resumes: n=%d k=%d edit %q: executed %q, want %q", n, k, ed, drv.executed, ed[k:])
				}
			}
		}
	}
}
