#!/bin/bash
exec /verif/replays_src/run_overlay_test.sh /repo sql/migrate /verif/replays_src/C12/execute_history_test.go TestGvcReplayExecuteHistory
