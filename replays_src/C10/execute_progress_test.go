package migrate_test

// Replay for C10/C09 (Executor.Execute, none mode): at the moment statement j of a file is
// handed to the database, the stored revision must already record the j-1 statements before
// it (so a crash loses at most the statement in flight), and the stored progress is never
// ahead of what was executed.  Files of 1..4 statements, fresh and resumed (progress k).

import (
	"context"
	"database/sql"
	"errors"
	"fmt"
	"strings"
	"testing"

	"ariga.io/atlas/sql/migrate"
)

type gvcRevs struct{ m map[string]*migrate.Revision }

func (r *gvcRevs) Ident() *migrate.TableIdent { return &migrate.TableIdent{} }
func (r *gvcRevs) ReadRevisions(context.Context) (out []*migrate.Revision, _ error) {
	for _, v := range r.m {
		c := *v
		out = append(out, &c)
	}
	return out, nil
}
func (r *gvcRevs) ReadRevision(_ context.Context, v string) (*migrate.Revision, error) {
	if x, ok := r.m[v]; ok {
		c := *x
		c.PartialHashes = append([]string(nil), x.PartialHashes...)
		return &c, nil
	}
	return nil, migrate.ErrRevisionNotExist
}
func (r *gvcRevs) WriteRevision(_ context.Context, x *migrate.Revision) error {
	c := *x
	c.PartialHashes = append([]string(nil), x.PartialHashes...)
	r.m[x.Version] = &c
	return nil
}
func (r *gvcRevs) DeleteRevision(_ context.Context, v string) error { delete(r.m, v); return nil }

type gvcDrv struct {
	migrate.Driver
	t        *testing.T
	revs     *gvcRevs
	executed int // statements of the file executed in total (over all runs)
	failAt   int // statement ordinal (1-based, in this run) that fails; 0 = never
	inRun    int
	what     string
}

func (d *gvcDrv) ExecContext(_ context.Context, q string, _ ...any) (sql.Result, error) {
	stored := 0
	if r, ok := d.revs.m["1"]; ok {
		stored = r.Applied
	}
	if stored != d.executed {
		d.t.Fatalf("VIOLATED history-not-ahead/at-most-one-behind: %s: statement %d is being executed while the stored revision records %d applied statements", d.what, d.executed+1, stored)
	}
	d.inRun++
	if d.failAt > 0 && d.inRun == d.failAt {
		return nil, errors.New("boom")
	}
	d.executed++
	return nil, nil
}

func TestGvcReplayExecuteProgress(t *testing.T) {
	ctx := context.Background()
	for n := 1; n <= 4; n++ {
		for k := 0; k < n; k++ { // k statements applied by a first, failing run
			var stmts []string
			for i := 0; i < n; i++ {
				stmts = append(stmts, fmt.Sprintf("CREATE TABLE t%d(c int);", i))
			}
			dir := &migrate.MemDir{}
			if err := dir.WriteFile("1_f.sql", []byte(strings.Join(stmts, "\n")+"\n")); err != nil {
				t.Skip(err)
			}
			sum, err := dir.Checksum()
			if err != nil {
				t.Skip(err)
			}
			if err := migrate.WriteSumFile(dir, sum); err != nil {
				t.Skip(err)
			}
			fs, _ := dir.Files()
			revs := &gvcRevs{m: map[string]*migrate.Revision{}}
			drv := &gvcDrv{t: t, revs: revs, what: fmt.Sprintf("n=%d k=%d", n, k)}
			ex, err := migrate.NewExecutor(drv, dir, revs)
			if err != nil {
				t.Skip(err)
			}
			if k > 0 {
				drv.failAt = k + 1
				_ = ex.Execute(ctx, fs[0])
				drv.failAt, drv.inRun = 0, 0
			}
			if err := ex.Execute(ctx, fs[0]); err != nil {
				t.Fatalf("VIOLATED completes: n=%d k=%d: %v", n, k, err)
			}
			if drv.executed != n {
				t.Fatalf("VIOLATED in-order-once: n=%d k=%d: %d statements executed in total", n, k, drv.executed)
			}
			if r := revs.m["1"]; r == nil || r.Applied != n || r.Total != n {
				t.Fatalf("VIOLATED history-exact: n=%d k=%d: stored %+v", n, k, r)
			}
		}
	}
}
