//go:build verif

package sqlx

// ---------------------------------------------------------------------------------------
// C04 (narrow): dependsOn reports every foreign-key ordering constraint between two top-level
// changes: a table is created before a table or a foreign key that references it, and a table
// is dropped after every table or foreign key that references it.  (SortChanges turns these
// edges into the plan order; its traversal is not under contract.)

//@ import "slices"
//@ func dependOnOf(change, other schema.Change) (b bool)
//@   trusted
//@   pure
//@ func typeDependsOnT(t schema.Type, tt *schema.Table) (b bool)
//@   trusted
//@   pure
//@ func depOfAdd(refs []schema.Object, c schema.Change) (b bool)
//@   trusted
//@   pure
//@ func depOfDrop(o schema.Object, c schema.Change) (b bool)
//@   trusted
//@   pure
//@ extern func schema.IsType(t schema.Type, x schema.Type) (b bool)
//@   pure
//@ spec func gvcFKRefs(fks []*schema.ForeignKey, t *schema.Table) bool {
//@ spec 	return (exists i int :: 0 <= i && i < len(fks) && SameTable(fks[i].RefTable, t))
//@ spec }
//@ rec gvcAddsFKTo
//@ spec func gvcAddsFKTo(c schema.Change, t *schema.Table) bool {
//@ spec 	a, ok := c.(*schema.AddForeignKey)
//@ spec 	return ok && SameTable(a.F.RefTable, t)
//@ spec }
//@ rec gvcModifiesFKTo
//@ spec func gvcModifiesFKTo(c schema.Change, t *schema.Table) bool {
//@ spec 	m, ok := c.(*schema.ModifyForeignKey)
//@ spec 	return ok && SameTable(m.To.RefTable, t)
//@ spec }
//@ rec gvcDropsFKTo
//@ spec func gvcDropsFKTo(c schema.Change, t *schema.Table) bool {
//@ spec 	d, ok := c.(*schema.DropForeignKey)
//@ spec 	return ok && SameTable(d.F.RefTable, t)
//@ spec }
//@ rec gvcDepChangeOK
//@ spec func gvcDepChangeOK(c schema.Change) bool {
//@ spec 	return (!GvcIs[*schema.AddTable](c) || (c.(*schema.AddTable) != nil && c.(*schema.AddTable).T != nil)) &&
//@ spec 		(!GvcIs[*schema.DropTable](c) || (c.(*schema.DropTable) != nil && c.(*schema.DropTable).T != nil)) &&
//@ spec 		(!GvcIs[*schema.ModifyTable](c) || (c.(*schema.ModifyTable) != nil && c.(*schema.ModifyTable).T != nil)) &&
//@ spec 		(!GvcIs[*schema.AddSchema](c) || (c.(*schema.AddSchema) != nil && c.(*schema.AddSchema).S != nil)) &&
//@ spec 		(!GvcIs[*schema.DropSchema](c) || (c.(*schema.DropSchema) != nil && c.(*schema.DropSchema).S != nil)) &&
//@ spec 		(!GvcIs[*schema.AddObject](c) || c.(*schema.AddObject) != nil) &&
//@ spec 		(!GvcIs[*schema.DropObject](c) || c.(*schema.DropObject) != nil) &&
//@ spec 		(!GvcIs[*schema.AddForeignKey](c) || (c.(*schema.AddForeignKey) != nil && c.(*schema.AddForeignKey).F != nil)) &&
//@ spec 		(!GvcIs[*schema.ModifyForeignKey](c) || (c.(*schema.ModifyForeignKey) != nil && c.(*schema.ModifyForeignKey).To != nil)) &&
//@ spec 		(!GvcIs[*schema.DropForeignKey](c) || (c.(*schema.DropForeignKey) != nil && c.(*schema.DropForeignKey).F != nil)) &&
//@ spec 		(!GvcIs[*schema.AddColumn](c) || (c.(*schema.AddColumn) != nil && c.(*schema.AddColumn).C != nil && c.(*schema.AddColumn).C.Type != nil)) &&
//@ spec 		(!GvcIs[*schema.DropColumn](c) || (c.(*schema.DropColumn) != nil && c.(*schema.DropColumn).C != nil && c.(*schema.DropColumn).C.Type != nil)) &&
//@ spec 		(!GvcIs[*schema.ModifyColumn](c) || (c.(*schema.ModifyColumn) != nil && c.(*schema.ModifyColumn).To != nil && c.(*schema.ModifyColumn).To.Type != nil))
//@ spec }

//@ func dependsOn(c1, c2 schema.Change, o SortOptions) (r bool)
//@   requires (forall c schema.Change :: gvcDepChangeOK(c))
//@   requires (forall t *schema.Table, i int :: t != nil && 0 <= i && i < len(t.ForeignKeys) ==> t.ForeignKeys[i] != nil)
//@   requires (forall t *schema.Table, i int :: t != nil && 0 <= i && i < len(t.Columns) ==> t.Columns[i] != nil && t.Columns[i].Type != nil)
//@   requires (forall t *schema.Table :: t != nil ==> t.Schema != nil)
//@   requires (forall t *schema.Table, i int :: t != nil && 0 <= i && i < len(t.Triggers) ==> t.Triggers[i] != nil)
//@   modifies nothing
//@   ensures table-created-before-a-table-referencing-it: GvcIs[*schema.AddTable](c1) && GvcIs[*schema.AddTable](c2) &&
//@           gvcFKRefs(c1.(*schema.AddTable).T.ForeignKeys, c2.(*schema.AddTable).T) ==> r
//@   ensures table-created-before-a-foreign-key-added-to-it: GvcIs[*schema.ModifyTable](c1) && GvcIs[*schema.AddTable](c2) &&
//@           (exists k int :: 0 <= k && k < len(c1.(*schema.ModifyTable).Changes) && gvcAddsFKTo(c1.(*schema.ModifyTable).Changes[k], c2.(*schema.AddTable).T)) ==> r
//@   ensures table-created-before-a-foreign-key-repointed-to-it: GvcIs[*schema.ModifyTable](c1) && GvcIs[*schema.AddTable](c2) &&
//@           (exists k int :: 0 <= k && k < len(c1.(*schema.ModifyTable).Changes) && gvcModifiesFKTo(c1.(*schema.ModifyTable).Changes[k], c2.(*schema.AddTable).T)) ==> r
//@   ensures table-modified-after-its-creation: GvcIs[*schema.ModifyTable](c1) && GvcIs[*schema.AddTable](c2) &&
//@           SameTable(c1.(*schema.ModifyTable).T, c2.(*schema.AddTable).T) ==> r
//@   ensures table-dropped-after-a-table-referencing-it: GvcIs[*schema.DropTable](c1) && GvcIs[*schema.DropTable](c2) &&
//@           gvcFKRefs(c2.(*schema.DropTable).T.ForeignKeys, c1.(*schema.DropTable).T) ==> r
//@   ensures table-dropped-after-foreign-keys-to-it: GvcIs[*schema.DropTable](c1) && GvcIs[*schema.ModifyTable](c2) &&
//@           (exists k int :: 0 <= k && k < len(c2.(*schema.ModifyTable).Changes) && gvcDropsFKTo(c2.(*schema.ModifyTable).Changes[k], c1.(*schema.DropTable).T)) ==> r
//@   loop 1 invariant true
