#!/usr/bin/env python3
# usage: dropassert.py file.smt2 n1,n2,...  -> writes file with those (1-based) assert lines removed to stdout
import sys
drop=set(int(x) for x in sys.argv[2].split(',') if x)
n=0
for line in open(sys.argv[1]):
    if line.startswith('(assert'):
        n+=1
        if n in drop: continue
    sys.stdout.write(line)
