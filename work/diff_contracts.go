//go:build verif

package sqlx

// ---------------------------------------------------------------------------------------
// C02: the change-kind bit-set of a foreign key is exact

//@ extern func (dd DiffDriver) ReferenceChanged(from, to schema.ReferenceOption) (r bool)
//@   pure
//@ extern func (dd DiffDriver) ForeignKeyAttrChanged(from, to []schema.Attr) (r bool)
//@   pure

//@ spec func gvcNamesDiffer(a, b []*schema.Column, n int) bool {
//@ spec 	return (exists i int :: 0 <= i && i < n && a[i].Name != b[i].Name)
//@ spec }

//@ func (d *Diff) fkChange(from, to *schema.ForeignKey) (r schema.ChangeKind)
//@   requires d != nil && from != nil && to != nil && from.RefTable != nil && to.RefTable != nil && d.DiffDriver != nil
//@   requires (forall i int :: 0 <= i && i < len(from.Columns) ==> from.Columns[i] != nil)
//@   requires (forall i int :: 0 <= i && i < len(to.Columns) ==> to.Columns[i] != nil)
//@   requires (forall i int :: 0 <= i && i < len(from.RefColumns) ==> from.RefColumns[i] != nil)
//@   requires (forall i int :: 0 <= i && i < len(to.RefColumns) ==> to.RefColumns[i] != nil)
//@   modifies nothing
//@   ensures ref-table-bit-iff-referenced-table-differs: (r&schema.ChangeRefTable != 0) == (from.RefTable.Name != to.RefTable.Name)
//@   ensures ref-column-bit-iff-referenced-columns-differ: (r&schema.ChangeRefColumn != 0) == (from.RefTable.Name != to.RefTable.Name ||
//@           len(from.RefColumns) != len(to.RefColumns) || gvcNamesDiffer(from.RefColumns, to.RefColumns, len(from.RefColumns)))
//@   ensures column-bit-iff-columns-differ: (r&schema.ChangeColumn != 0) == (len(from.Columns) != len(to.Columns) ||
//@           gvcNamesDiffer(from.Columns, to.Columns, len(from.Columns)))
//@   ensures update-action-bit-iff-driver-says-so: (r&schema.ChangeUpdateAction != 0) == d.DiffDriver.ReferenceChanged(from.OnUpdate, to.OnUpdate)
//@   ensures delete-action-bit-iff-driver-says-so: (r&schema.ChangeDeleteAction != 0) == d.DiffDriver.ReferenceChanged(from.OnDelete, to.OnDelete)
//@   ensures attr-bit-iff-driver-says-so: (r&schema.ChangeAttr != 0) == d.DiffDriver.ForeignKeyAttrChanged(from.Attrs, to.Attrs)
//@   ensures no-other-bit: r&^(schema.ChangeRefTable|schema.ChangeRefColumn|schema.ChangeColumn|schema.ChangeUpdateAction|schema.ChangeDeleteAction|schema.ChangeAttr) == 0
//@   loop 1 invariant 0 <= loopk && loopk <= len(from.RefColumns)
//@   loop 1 invariant (change&schema.ChangeRefColumn != 0) == gvcNamesDiffer(from.RefColumns, to.RefColumns, loopk)
//@   loop 1 invariant change&^schema.ChangeRefColumn == 0
//@   loop 2 invariant 0 <= loopk && loopk <= len(from.Columns)
//@   loop 2 invariant (change&schema.ChangeColumn != 0) == gvcNamesDiffer(from.Columns, to.Columns, loopk)
//@   loop 2 invariant change&^(schema.ChangeRefTable|schema.ChangeRefColumn|schema.ChangeColumn) == 0
//@   loop 2 invariant (change&schema.ChangeRefTable != 0) == (from.RefTable.Name != to.RefTable.Name)
//@   loop 2 invariant (change&schema.ChangeRefColumn != 0) == (from.RefTable.Name != to.RefTable.Name ||
//@           len(from.RefColumns) != len(to.RefColumns) || gvcNamesDiffer(from.RefColumns, to.RefColumns, len(from.RefColumns)))

