//go:build verif

package schema

//@ func (t *Table) Column(name string) (c *Column, ok bool)
//@   requires t != nil
//@   requires (forall i int :: 0 <= i && i < len(t.Columns) ==> t.Columns[i] != nil)
//@   pure
//@   modifies nothing
//@   ensures found-iff-a-column-has-the-name: ok == (exists i int :: 0 <= i && i < len(t.Columns) && t.Columns[i].Name == name)
//@   ensures found-column-is-listed-under-the-name: ok ==> c != nil && c.Name == name && (exists i int :: 0 <= i && i < len(t.Columns) && t.Columns[i] == c)
//@   ensures !ok ==> c == nil
//@   loop 1 invariant 0 <= loopk && loopk <= len(t.Columns)
//@   loop 1 invariant (forall i int :: 0 <= i && i < loopk ==> t.Columns[i].Name != name)
