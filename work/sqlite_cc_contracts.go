//go:build verif

package sqlite

// C02: the SQLite column comparator - exact kind flags, nil or a ModifyColumn of the two
// columns (this is the contract the generic walker assumes of every dialect), and nothing is
// reported when a column is compared with itself.

//@ extern func sqlx.DefaultValue(c *schema.Column) (s string, ok bool)
//@   pure
//@ extern func sqlx.Unquote(s string) (r string, err error)
//@   pure
//@ extern func sqlx.MayWrap(s string) (r string)
//@   pure
//@ func storedOrVirtual(s string) (r string)
//@   trusted
//@   pure

//@ func (d *diff) typeChanged(from, to *schema.Column) (changed bool, err error)
//@   requires from != nil && to != nil && from.Type != nil && to.Type != nil
//@   requires GvcIs[*UserDefinedType](from.Type.Type) ==> from.Type.Type.(*UserDefinedType) != nil
//@   requires GvcIs[*UserDefinedType](to.Type.Type) ==> to.Type.Type.(*UserDefinedType) != nil
//@   pure
//@   modifies nothing
//@   ensures fails-iff-a-type-is-missing: (err != nil) == (from.Type.Type == nil || to.Type.Type == nil)
//@   ensures same-type-value-is-unchanged: err == nil && from.Type.Type == to.Type.Type ==> !changed

//@ func (d *diff) defaultChanged(from, to *schema.Column) (changed bool)
//@   requires from != nil && to != nil
//@   pure
//@   modifies nothing
//@   ensures same-column-is-unchanged: from == to ==> !changed

//@ func (d *diff) generatedChanged(from, to *schema.Column) (changed bool)
//@   requires from != nil && to != nil
//@   modifies nothing
//@   ensures same-column-is-unchanged: from == to ==> !changed

//@ func (d *diff) ColumnChange(t *schema.Table, from, to *schema.Column, o *schema.DiffOptions) (r schema.Change, err error)
//@   requires d != nil && from != nil && to != nil && from.Type != nil && to.Type != nil && sqlx.NoChange == nil
//@   requires GvcIs[*UserDefinedType](from.Type.Type) ==> from.Type.Type.(*UserDefinedType) != nil
//@   requires GvcIs[*UserDefinedType](to.Type.Type) ==> to.Type.Type.(*UserDefinedType) != nil
//@   modifies nothing
//@   ensures nil-or-a-modification-of-the-two-columns: err == nil && r != nil ==> GvcIs[*schema.ModifyColumn](r) && r.(*schema.ModifyColumn) != nil &&
//@           r.(*schema.ModifyColumn).From == from && r.(*schema.ModifyColumn).To == to && r.(*schema.ModifyColumn).Change != schema.NoChange
//@   ensures null-flag-iff-nullability-differs: err == nil && r != nil ==> (r.(*schema.ModifyColumn).Change&schema.ChangeNull != 0) == (from.Type.Null != to.Type.Null)
//@   ensures nullability-change-is-reported: err == nil && from.Type.Null != to.Type.Null ==> r != nil
//@   ensures no-flag-outside-null-type-default-generated: err == nil && r != nil ==> r.(*schema.ModifyColumn).Change&^(schema.ChangeNull|schema.ChangeType|schema.ChangeDefault|schema.ChangeGenerated) == 0
//@   ensures fails-iff-a-type-is-missing: (err != nil) == (from.Type.Type == nil || to.Type.Type == nil)
//@   ensures a-column-compared-with-itself-is-unchanged: err == nil && from == to ==> r == nil

//@ func (d *diff) ReferenceChanged(from, to schema.ReferenceOption) (r bool)
//@   modifies nothing
//@   ensures same-action-is-unchanged: from == to ==> !r
//@   ensures unset-means-no-action: (from == "" && to == schema.NoAction) || (from == schema.NoAction && to == "") ==> !r
//@   ensures explicit-actions-compared-exactly: from != "" && to != "" ==> r == (from != to)

//@ func sameFK(fk1, fk2 *schema.ForeignKey) (r bool)
//@   requires fk1 != nil && fk2 != nil && fk1.Table != nil && fk2.Table != nil && fk1.RefTable != nil && fk2.RefTable != nil
//@   requires (forall i int :: 0 <= i && i < len(fk1.Columns) ==> fk1.Columns[i] != nil)
//@   requires (forall i int :: 0 <= i && i < len(fk2.Columns) ==> fk2.Columns[i] != nil)
//@   requires (forall i int :: 0 <= i && i < len(fk1.RefColumns) ==> fk1.RefColumns[i] != nil)
//@   requires (forall i int :: 0 <= i && i < len(fk2.RefColumns) ==> fk2.RefColumns[i] != nil)
//@   modifies nothing
//@   ensures same-iff-tables-and-column-names-agree: r == (fk1.Table.Name == fk2.Table.Name && fk1.RefTable.Name == fk2.RefTable.Name &&
//@           len(fk1.Columns) == len(fk2.Columns) && len(fk1.RefColumns) == len(fk2.RefColumns) &&
//@           (forall i int :: 0 <= i && i < len(fk1.Columns) ==> fk1.Columns[i].Name == fk2.Columns[i].Name) &&
//@           (forall i int :: 0 <= i && i < len(fk1.RefColumns) ==> fk1.RefColumns[i].Name == fk2.RefColumns[i].Name))
//@   loop 1 invariant 0 <= loopk && loopk <= len(fk1.Columns)
//@   loop 1 invariant (forall i int :: 0 <= i && i < loopk ==> fk1.Columns[i].Name == fk2.Columns[i].Name)
//@   loop 2 invariant 0 <= loopk && loopk <= len(fk1.RefColumns)
//@   loop 2 invariant (forall i int :: 0 <= i && i < loopk ==> fk1.RefColumns[i].Name == fk2.RefColumns[i].Name)
//@   loop 2 invariant (forall i int :: 0 <= i && i < len(fk1.Columns) ==> fk1.Columns[i].Name == fk2.Columns[i].Name)
