#!/bin/bash
# run after the mutant suite has finished (/repo clean): install the sqlite comparator contracts and the refined Has frame
set -e
cd /repo && [ -z "$(git status --porcelain)" ] || { echo "/repo not clean"; exit 1; }
cp /tmp/dev/sql/internal/sqlx/verif_contracts.go /repo/sql/internal/sqlx/verif_contracts.go
cp /tmp/dev/sql/sqlite/verif_contracts.go /repo/sql/sqlite/verif_contracts.go
git add -A && git commit -qm "verif: SQLite column comparator under contract (exact kind flags, nil or a ModifyColumn of the two columns, a column compared with itself is unchanged), ReferenceChanged, sameFK; sqlx.Has writes only its target"
cd /verif && python3 - <<'PY'
import json
p='/verif/props/C02.json'
d=json.load(open(p))
l=d['loads'][0]
if './sql/sqlite' not in l['patterns']: l['patterns'].append('./sql/sqlite')
for k in ["(*diff).ColumnChange","(*diff).typeChanged","(*diff).defaultChanged","(*diff).generatedChanged","(*diff).ReferenceChanged","sameFK"]:
    if not any(f['key']==k for f in l['funcs']):
        l['funcs'].append({"pkg":"ariga.io/atlas/sql/sqlite","key":k})
d['assumptions'].append("SQLite dialect: (*diff).ColumnChange is proved to be what the generic walker assumes of a driver (writes nothing; nil or a ModifyColumn of exactly the two columns, with a non-empty kind), sets the Null flag exactly when nullability differs, sets no flag outside Null|Type|Default|Generated, fails exactly when a type is missing, and reports nothing when a column is compared with itself (typeChanged, defaultChanged, generatedChanged are unchanged on identical input); ReferenceChanged treats an unset action as NO ACTION and compares explicit actions exactly; sameFK is exact. The MySQL and PostgreSQL comparators are not under contract. sqlx.DefaultValue, sqlx.Unquote, sqlx.MayWrap, storedOrVirtual are deterministic functions of their arguments (assumed); sqlx.Has (reflection) is trusted: for a *GeneratedExpr target it writes only the target")
json.dump(d,open(p,'w'),indent=1)
PY
./bin/gvc check -p C02 -write-ledger | tail -1
