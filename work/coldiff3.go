//go:build verif

package sqlx

// C02: columnDiff - one DropColumn per column that disappears, one AddColumn per new column, nothing else unjustified

//@ extern func (dd DiffDriver) ColumnChange(fromT *schema.Table, from, to *schema.Column, o *schema.DiffOptions) (r schema.Change, err error)
//@   modifies nothing
//@   ensures err == nil && r != nil ==> GvcIs[*schema.ModifyColumn](r) && r.(*schema.ModifyColumn) != nil && r.(*schema.ModifyColumn).From == from && r.(*schema.ModifyColumn).To == to

//@ spec func gvcHasCol(t *schema.Table, name string) bool { _, ok := t.Column(name); return ok }
//@ spec func gvcDropOf(c schema.Change, col *schema.Column) bool {
//@ spec 	d, ok := c.(*schema.DropColumn)
//@ spec 	return ok && d != nil && d.C == col
//@ spec }
//@ spec func gvcAddOf(c schema.Change, col *schema.Column) bool {
//@ spec 	a, ok := c.(*schema.AddColumn)
//@ spec 	return ok && a != nil && a.C == col
//@ spec }
//@ spec func gvcListsDrop(l []schema.Change, n int, col *schema.Column) bool { return (some k int :: 0 <= k && k < n && gvcDropOf(l[k], col)) }
//@ spec func gvcListsAdd(l []schema.Change, n int, col *schema.Column) bool { return (some k int :: 0 <= k && k < n && gvcAddOf(l[k], col)) }
// a change in the list is justified by the two tables
//@ spec func gvcColJustified(c schema.Change, from, to *schema.Table) bool {
//@ spec 	if d, ok := c.(*schema.DropColumn); ok {
//@ spec 		return d != nil && (some i int :: 0 <= i && i < len(from.Columns) && from.Columns[i] == d.C) && !gvcHasCol(to, d.C.Name)
//@ spec 	}
//@ spec 	if a, ok := c.(*schema.AddColumn); ok {
//@ spec 		return a != nil && (some j int :: 0 <= j && j < len(to.Columns) && to.Columns[j] == a.C) && !gvcHasCol(from, a.C.Name)
//@ spec 	}
//@ spec 	if m, ok := c.(*schema.ModifyColumn); ok {
//@ spec 		return m != nil && (some i int :: 0 <= i && i < len(from.Columns) && from.Columns[i] == m.From) &&
//@ spec 			(some j int :: 0 <= j && j < len(to.Columns) && to.Columns[j] == m.To) && m.From.Name == m.To.Name
//@ spec 	}
//@ spec 	return false
//@ spec }

//@ func (d *Diff) askForColumns(t *schema.Table, changes []schema.Change, o *schema.DiffOptions) (r []schema.Change, err error)
//@   modifies nothing
//@   ensures err == nil && GvcEq(r, changes)

//@ spec func gvcColOf(t *schema.Table, name string) *schema.Column { c, _ := t.Column(name); return c }
//@ spec func gvcInCols(t *schema.Table, c *schema.Column) bool { return (some i int :: 0 <= i && i < len(t.Columns) && t.Columns[i] == c) }
// what a reported change must be backed by
//@ spec func gvcDropBacked(c schema.Change, from, to *schema.Table) bool {
//@ spec 	d, ok := c.(*schema.DropColumn)
//@ spec 	return !ok || (d != nil && d.C != nil && gvcInCols(from, d.C) && !gvcHasCol(to, d.C.Name))
//@ spec }
//@ spec func gvcAddBacked(c schema.Change, from, to *schema.Table) bool {
//@ spec 	a, ok := c.(*schema.AddColumn)
//@ spec 	return !ok || (a != nil && a.C != nil && gvcInCols(to, a.C) && !gvcHasCol(from, a.C.Name))
//@ spec }
//@ spec func gvcModBacked(c schema.Change, from, to *schema.Table) bool {
//@ spec 	m, ok := c.(*schema.ModifyColumn)
//@ spec 	return !ok || (m != nil && m.From != nil && m.To != nil && m.To.Name == m.From.Name && gvcInCols(from, m.From))
//@ spec }
//@ spec func gvcModToBacked(c schema.Change, to *schema.Table) bool {
//@ spec 	m, ok := c.(*schema.ModifyColumn)
//@ spec 	return !ok || (m != nil && gvcInCols(to, m.To))
//@ spec }
//@ spec func gvcColKind(c schema.Change) bool {
//@ spec 	return GvcIs[*schema.DropColumn](c) || GvcIs[*schema.AddColumn](c) || GvcIs[*schema.ModifyColumn](c)
//@ spec }

//@ func (d *Diff) columnDiff(from, to *schema.Table, opts *schema.DiffOptions) (r []schema.Change, err error)
//@   requires d != nil && d.DiffDriver != nil && from != nil && to != nil && opts != nil && NoChange == nil
//@   requires (forall i int :: 0 <= i && i < len(from.Columns) ==> from.Columns[i] != nil)
//@   requires (forall i int :: 0 <= i && i < len(to.Columns) ==> to.Columns[i] != nil)
//@   requires no-change-kind-is-skipped: len(opts.SkipChanges) == 0
//@   modifies everything
//@   ensures every-vanished-column-is-dropped: err == nil ==> (forall i int :: 0 <= i && i < len(from.Columns) && !gvcHasCol(to, from.Columns[i].Name) ==> gvcListsDrop(r, len(r), from.Columns[i]))
//@   ensures every-new-column-is-added: err == nil ==> (forall j int :: 0 <= j && j < len(to.Columns) && !gvcHasCol(from, to.Columns[j].Name) ==> gvcListsAdd(r, len(r), to.Columns[j]))
//@   ensures only-vanished-columns-are-dropped: err == nil ==> (forall k int :: 0 <= k && k < len(r) ==> gvcDropBacked(r[k], from, to))
//@   ensures only-new-columns-are-added: err == nil ==> (forall k int :: 0 <= k && k < len(r) ==> gvcAddBacked(r[k], from, to))
//@   ensures modifications-pair-the-columns-of-one-name: err == nil ==> (forall k int :: 0 <= k && k < len(r) ==> gvcModBacked(r[k], from, to))
//@   ensures modifications-lead-to-a-column-of-the-new-table: err == nil ==> (forall k int :: 0 <= k && k < len(r) ==> gvcModToBacked(r[k], to))
//@   ensures at-most-one-change-per-column: err == nil ==> len(r) <= len(from.Columns)+len(to.Columns)
//@   ensures nothing-but-column-changes: err == nil ==> (forall k int :: 0 <= k && k < len(r) ==> gvcColKind(r[k]))
//@   loop 1 localwrites
//@   loop 2 localwrites
//@   loop 3 localwrites
//@   loop 1 invariant 0 <= loopk && loopk <= len(from.Columns) && (all == nil || GvcFresh(all))
//@   loop 1 invariant (forall i int :: 0 <= i && i < loopk && !gvcHasCol(to, from.Columns[i].Name) ==> gvcListsDrop(all, len(all), from.Columns[i]))
//@   loop 2 invariant 0 <= loopk && loopk <= len(to.Columns) && (all == nil || GvcFresh(all))
//@   loop 2 invariant (forall i int :: 0 <= i && i < len(from.Columns) && !gvcHasCol(to, from.Columns[i].Name) ==> gvcListsDrop(all, len(all), from.Columns[i]))
//@   loop 2 invariant (forall j int :: 0 <= j && j < loopk && !gvcHasCol(from, to.Columns[j].Name) ==> gvcListsAdd(all, len(all), to.Columns[j]))
//@   loop 3 invariant (forall j int :: 0 <= j && j < len(to.Columns) && !gvcHasCol(from, to.Columns[j].Name) ==> gvcListsAdd(all, len(all), to.Columns[j]))
//@   loop 3 invariant 0 <= loopk && loopk <= len(all) && GvcFresh(changes) && (all == nil || (GvcFresh(all) && GvcBase(all) != GvcBase(changes)))
//@   loop 3 invariant len(opts.SkipChanges) == 0
//@   loop 3 invariant (forall i int :: 0 <= i && i < len(from.Columns) && !gvcHasCol(to, from.Columns[i].Name) ==> gvcListsDrop(all, len(all), from.Columns[i]))
//@   loop 1 invariant (forall k int :: 0 <= k && k < len(all) ==> gvcDropBacked(all[k], from, to))
//@   loop 1 invariant (forall k int :: 0 <= k && k < len(all) ==> gvcAddBacked(all[k], from, to))
//@   loop 1 invariant (forall k int :: 0 <= k && k < len(all) ==> gvcModBacked(all[k], from, to))
//@   loop 1 invariant (forall k int :: 0 <= k && k < len(all) ==> gvcModToBacked(all[k], to))
//@   loop 1 invariant (forall k int :: 0 <= k && k < len(all) ==> gvcColKind(all[k]))
//@   loop 2 invariant (forall k int :: 0 <= k && k < len(all) ==> gvcDropBacked(all[k], from, to))
//@   loop 2 invariant (forall k int :: 0 <= k && k < len(all) ==> gvcAddBacked(all[k], from, to))
//@   loop 2 invariant (forall k int :: 0 <= k && k < len(all) ==> gvcModBacked(all[k], from, to))
//@   loop 2 invariant (forall k int :: 0 <= k && k < len(all) ==> gvcModToBacked(all[k], to))
//@   loop 2 invariant (forall k int :: 0 <= k && k < len(all) ==> gvcColKind(all[k]))
//@   loop 3 invariant (forall k int :: 0 <= k && k < len(all) ==> gvcDropBacked(all[k], from, to))
//@   loop 3 invariant (forall k int :: 0 <= k && k < len(all) ==> gvcAddBacked(all[k], from, to))
//@   loop 3 invariant (forall k int :: 0 <= k && k < len(all) ==> gvcModBacked(all[k], from, to))
//@   loop 3 invariant (forall k int :: 0 <= k && k < len(all) ==> gvcModToBacked(all[k], to))
//@   loop 3 invariant (forall k int :: 0 <= k && k < len(all) ==> gvcColKind(all[k]))
//@   loop 3 invariant the-result-is-the-list-so-far: len(changes) == loopk && (forall q int :: 0 <= q && q < loopk ==> changes[q] == all[q])
//@   loop 1 invariant len(all) <= loopk
//@   loop 2 invariant len(all) <= len(from.Columns)+loopk
//@   loop 3 invariant len(all) <= len(from.Columns)+len(to.Columns)
