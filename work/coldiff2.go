//go:build verif

package sqlx

// C02: columnDiff - one DropColumn per column that disappears, one AddColumn per new column, nothing else unjustified

//@ extern func (dd DiffDriver) ColumnChange(fromT *schema.Table, from, to *schema.Column, o *schema.DiffOptions) (r schema.Change, err error)
//@   modifies nothing
//@   ensures err == nil && r != nil ==> GvcIs[*schema.ModifyColumn](r) && r.(*schema.ModifyColumn) != nil && r.(*schema.ModifyColumn).From == from && r.(*schema.ModifyColumn).To == to

//@ spec func gvcHasCol(t *schema.Table, name string) bool { _, ok := t.Column(name); return ok }
//@ spec func gvcDropOf(c schema.Change, col *schema.Column) bool {
//@ spec 	d, ok := c.(*schema.DropColumn)
//@ spec 	return ok && d != nil && d.C == col
//@ spec }
//@ spec func gvcAddOf(c schema.Change, col *schema.Column) bool {
//@ spec 	a, ok := c.(*schema.AddColumn)
//@ spec 	return ok && a != nil && a.C == col
//@ spec }
//@ spec func gvcListsDrop(l []schema.Change, n int, col *schema.Column) bool { return (some k int :: 0 <= k && k < n && gvcDropOf(l[k], col)) }
//@ spec func gvcListsAdd(l []schema.Change, n int, col *schema.Column) bool { return (some k int :: 0 <= k && k < n && gvcAddOf(l[k], col)) }
// a change in the list is justified by the two tables
//@ spec func gvcColJustified(c schema.Change, from, to *schema.Table) bool {
//@ spec 	if d, ok := c.(*schema.DropColumn); ok {
//@ spec 		return d != nil && (some i int :: 0 <= i && i < len(from.Columns) && from.Columns[i] == d.C) && !gvcHasCol(to, d.C.Name)
//@ spec 	}
//@ spec 	if a, ok := c.(*schema.AddColumn); ok {
//@ spec 		return a != nil && (some j int :: 0 <= j && j < len(to.Columns) && to.Columns[j] == a.C) && !gvcHasCol(from, a.C.Name)
//@ spec 	}
//@ spec 	if m, ok := c.(*schema.ModifyColumn); ok {
//@ spec 		return m != nil && (some i int :: 0 <= i && i < len(from.Columns) && from.Columns[i] == m.From) &&
//@ spec 			(some j int :: 0 <= j && j < len(to.Columns) && to.Columns[j] == m.To) && m.From.Name == m.To.Name
//@ spec 	}
//@ spec 	return false
//@ spec }

//@ func (d *Diff) askForColumns(t *schema.Table, changes []schema.Change, o *schema.DiffOptions) (r []schema.Change, err error)
//@   modifies nothing
//@   ensures err == nil && GvcEq(r, changes)

//@ func (d *Diff) columnDiff(from, to *schema.Table, opts *schema.DiffOptions) (r []schema.Change, err error)
//@   requires d != nil && d.DiffDriver != nil && from != nil && to != nil && opts != nil && NoChange == nil
//@   requires (forall i int :: 0 <= i && i < len(from.Columns) ==> from.Columns[i] != nil)
//@   requires (forall i int :: 0 <= i && i < len(to.Columns) ==> to.Columns[i] != nil)
//@   requires no-change-kind-is-skipped: len(opts.SkipChanges) == 0
//@   modifies everything
//@   ensures every-vanished-column-is-dropped: err == nil ==> (forall i int :: 0 <= i && i < len(from.Columns) && !gvcHasCol(to, from.Columns[i].Name) ==> gvcListsDrop(r, len(r), from.Columns[i]))
//@   ensures every-new-column-is-added: err == nil ==> (forall j int :: 0 <= j && j < len(to.Columns) && !gvcHasCol(from, to.Columns[j].Name) ==> gvcListsAdd(r, len(r), to.Columns[j]))
//@   loop 1 localwrites
//@   loop 2 localwrites
//@   loop 3 localwrites
//@   loop 1 invariant 0 <= loopk && loopk <= len(from.Columns) && (all == nil || GvcFresh(all))
//@   loop 1 invariant (forall i int :: 0 <= i && i < loopk && !gvcHasCol(to, from.Columns[i].Name) ==> gvcListsDrop(all, len(all), from.Columns[i]))
//@   loop 2 invariant 0 <= loopk && loopk <= len(to.Columns) && (all == nil || GvcFresh(all))
//@   loop 2 invariant (forall i int :: 0 <= i && i < len(from.Columns) && !gvcHasCol(to, from.Columns[i].Name) ==> gvcListsDrop(all, len(all), from.Columns[i]))
//@   loop 2 invariant (forall j int :: 0 <= j && j < loopk && !gvcHasCol(from, to.Columns[j].Name) ==> gvcListsAdd(all, len(all), to.Columns[j]))
//@   loop 3 invariant (forall j int :: 0 <= j && j < len(to.Columns) && !gvcHasCol(from, to.Columns[j].Name) ==> gvcListsAdd(all, len(all), to.Columns[j]))
//@   loop 3 invariant 0 <= loopk && loopk <= len(all) && GvcFresh(changes) && (all == nil || (GvcFresh(all) && GvcBase(all) != GvcBase(changes)))
//@   loop 3 invariant len(opts.SkipChanges) == 0
//@   loop 3 invariant (forall i int :: 0 <= i && i < len(from.Columns) && !gvcHasCol(to, from.Columns[i].Name) ==> gvcListsDrop(all, len(all), from.Columns[i]))
//@   loop 3 invariant every-visited-change-is-in-the-result: (forall q int :: 0 <= q && q < loopk ==> (some k int :: 0 <= k && k < len(changes) && changes[k] == all[q]))
