//go:build verif

package sqlx

// C02: change-kind bit-set of an index

//@ extern func (dd DiffDriver) IndexAttrChanged(from, to []schema.Attr) (r bool)
//@   pure
//@ extern func (dd DiffDriver) IndexPartAttrChanged(from, to *schema.Index, i int) (r bool)
//@   pure

//@ func CommentChange(from, to []schema.Attr) (r schema.ChangeKind)
//@   modifies struct(schema.GeneratedExpr)
//@   ensures only-the-comment-bit: r == schema.NoChange || r == schema.ChangeComment

//@ func (d *Diff) partsChange(fromI, toI *schema.Index, renames map[string]string) (r schema.ChangeKind)
//@   trusted
//@   modifies elems(fromI.Parts), elems(toI.Parts)
//@   ensures only-the-parts-bit: r == schema.NoChange || r == schema.ChangeParts

//@ func (d *Diff) indexChange(from, to *schema.Index) (r schema.ChangeKind)
//@   requires d != nil && d.DiffDriver != nil && from != nil && to != nil
//@   modifies elems(from.Parts), elems(to.Parts), struct(schema.GeneratedExpr)
//@   ensures unique-bit-iff-uniqueness-differs: (r&schema.ChangeUnique != 0) == (from.Unique != to.Unique)
//@   ensures attr-bit-iff-driver-says-so: (r&schema.ChangeAttr != 0) == d.DiffDriver.IndexAttrChanged(from.Attrs, to.Attrs)
//@   ensures no-other-bit: r&^(schema.ChangeUnique|schema.ChangeAttr|schema.ChangeParts|schema.ChangeComment) == 0

//@ extern func (cs ChangeSupporter) SupportChange(c schema.Change) (r bool)
//@   modifies nothing

//@ func (d *Diff) pkDiff(from, to *schema.Table, opts *schema.DiffOptions) (r []schema.Change)
//@   requires d != nil && d.DiffDriver != nil && from != nil && to != nil && opts != nil
//@   requires no-change-kind-is-skipped: len(opts.SkipChanges) == 0
//@   modifies everything
//@   ensures at-most-one-change: len(r) <= 1
//@   ensures no-key-before-and-after-no-change: old(from.PrimaryKey) == nil && old(to.PrimaryKey) == nil ==> len(r) == 0
//@   ensures new-key-is-added: old(from.PrimaryKey) == nil && old(to.PrimaryKey) != nil ==> len(r) == 1 && GvcIs[*schema.AddPrimaryKey](r[0]) && r[0].(*schema.AddPrimaryKey).P == old(to.PrimaryKey)
//@   ensures vanished-key-is-dropped: old(from.PrimaryKey) != nil && old(to.PrimaryKey) == nil ==> len(r) == 1 && GvcIs[*schema.DropPrimaryKey](r[0]) && r[0].(*schema.DropPrimaryKey).P == old(from.PrimaryKey)
//@   ensures kept-key-is-modified-or-renamed-at-most: old(from.PrimaryKey) != nil && old(to.PrimaryKey) != nil && len(r) == 1 ==>
//@           (GvcIs[*schema.ModifyPrimaryKey](r[0]) && r[0].(*schema.ModifyPrimaryKey).From == old(from.PrimaryKey) && r[0].(*schema.ModifyPrimaryKey).To == old(to.PrimaryKey) &&
//@            r[0].(*schema.ModifyPrimaryKey).Change != schema.NoChange && r[0].(*schema.ModifyPrimaryKey).Change&schema.ChangeUnique == 0) ||
//@           (GvcIs[*schema.RenameConstraint](r[0]) && old(from.PrimaryKey).Name != old(to.PrimaryKey).Name)
