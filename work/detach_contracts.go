//go:build verif

package sqlx

// C04: detachReferences - tables first, foreign keys afterwards; foreign keys dropped first, tables afterwards

//@ spec func gvcDeclaresFK(c schema.Change) bool {
//@ spec 	m, ok := c.(*schema.ModifyTable)
//@ spec 	return ok && (some k int :: 0 <= k && k < len(m.Changes) && GvcIs[*schema.AddForeignKey](m.Changes[k]))
//@ spec }
//@ spec func gvcDropsFK(c schema.Change) bool {
//@ spec 	m, ok := c.(*schema.ModifyTable)
//@ spec 	return ok && (some k int :: 0 <= k && k < len(m.Changes) && GvcIs[*schema.DropForeignKey](m.Changes[k]))
//@ spec }
//@ spec func gvcSelfOnly(t *schema.Table) bool {
//@ spec 	return (forall j int :: 0 <= j && j < len(t.ForeignKeys) ==> t.ForeignKeys[j].RefTable == t.ForeignKeys[j].Table)
//@ spec }
//@ spec func gvcPlannedOK(c schema.Change) bool {
//@ spec 	if GvcIs[*schema.DropTable](c) || gvcDeclaresFK(c) {
//@ spec 		return false
//@ spec 	}
//@ spec 	a, ok := c.(*schema.AddTable)
//@ spec 	return !ok || (a != nil && a.T != nil && gvcSelfOnly(a.T))
//@ spec }
//@ spec func gvcDeferredOK(c schema.Change) bool {
//@ spec 	if GvcIs[*schema.AddTable](c) || gvcDropsFK(c) {
//@ spec 		return false
//@ spec 	}
//@ spec 	d, ok := c.(*schema.DropTable)
//@ spec 	return !ok || (d != nil && d.T != nil && gvcSelfOnly(d.T))
//@ spec }

//@ func detachReferences(changes []schema.Change) (r []schema.Change)
//@   requires (forall k int :: 0 <= k && k < len(changes) ==> gvcDepChangeOK(changes[k]))
//@   requires (forall m *schema.ModifyTable, k int :: m != nil && 0 <= k && k < len(m.Changes) ==> gvcDepChangeOK(m.Changes[k]))
//@   requires (forall t *schema.Table, i int :: t != nil && 0 <= i && i < len(t.ForeignKeys) ==> t.ForeignKeys[i] != nil)
//@   requires foreign-keys-belong-to-their-table: (forall t *schema.Table, i int :: t != nil && 0 <= i && i < len(t.ForeignKeys) ==> t.ForeignKeys[i].Table == t)
//@   requires no-top-level-foreign-key-changes: (forall k int :: 0 <= k && k < len(changes) ==> !GvcIs[*schema.AddForeignKey](changes[k]) && !GvcIs[*schema.DropForeignKey](changes[k]))
//@   modifies nothing
//@   ensures tables-created-before-any-foreign-key-is-declared: (forall a int, b int :: 0 <= a && a < b && b < len(r) && gvcDeclaresFK(r[a]) ==> !GvcIs[*schema.AddTable](r[b]))
//@   ensures foreign-keys-dropped-before-any-table-is-dropped: (forall a int, b int :: 0 <= a && a < b && b < len(r) && GvcIs[*schema.DropTable](r[a]) ==> !gvcDropsFK(r[b]))
//@   ensures created-tables-carry-only-self-references: (forall k int :: 0 <= k && k < len(r) && GvcIs[*schema.AddTable](r[k]) ==> gvcSelfOnly(r[k].(*schema.AddTable).T))
//@   ensures dropped-tables-carry-only-self-references: (forall k int :: 0 <= k && k < len(r) && GvcIs[*schema.DropTable](r[k]) ==> gvcSelfOnly(r[k].(*schema.DropTable).T))
//@   loop 1 localwrites
//@   loop 2 localwrites
//@   loop 3 localwrites
//@   loop 4 localwrites
//@   loop 1 common (planned == nil || GvcFresh(planned)) && (deferred == nil || GvcFresh(deferred))
//@   loop 1 common planned == nil || deferred == nil || GvcBase(planned) != GvcBase(deferred)
//@   loop 1 invariant 0 <= loopk && loopk <= len(changes)
//@   loop 1 invariant (forall k int :: 0 <= k && k < len(planned) ==> gvcPlannedOK(planned[k]))
//@   loop 1 invariant (forall k int :: 0 <= k && k < len(deferred) ==> gvcDeferredOK(deferred[k]))
//@   loop 2 common (planned == nil || GvcFresh(planned)) && (deferred == nil || GvcFresh(deferred)) && (ext == nil || GvcFresh(ext)) && (self == nil || GvcFresh(self))
//@   loop 2 common planned == nil || deferred == nil || GvcBase(planned) != GvcBase(deferred)
//@   loop 2 common ext == nil || ((planned == nil || GvcBase(planned) != GvcBase(ext)) && (deferred == nil || GvcBase(deferred) != GvcBase(ext)))
//@   loop 2 common 0 <= loopi1 && loopi1 < len(changes) && GvcIs[*schema.AddTable](changes[loopi1]) && 0 <= loopk && loopk <= len(changes[loopi1].(*schema.AddTable).T.ForeignKeys)
//@   loop 2 invariant (forall k int :: 0 <= k && k < len(planned) ==> gvcPlannedOK(planned[k]))
//@   loop 2 invariant (forall k int :: 0 <= k && k < len(deferred) ==> gvcDeferredOK(deferred[k]))
//@   loop 2 invariant (forall q int :: 0 <= q && q < len(ext) ==> GvcIs[*schema.AddForeignKey](ext[q]))
//@   loop 2 invariant (forall q int :: 0 <= q && q < len(self) ==> self[q] != nil && self[q].RefTable == self[q].Table)
//@   loop 3 common (planned == nil || GvcFresh(planned)) && (deferred == nil || GvcFresh(deferred)) && (fks == nil || GvcFresh(fks))
//@   loop 3 common planned == nil || deferred == nil || GvcBase(planned) != GvcBase(deferred)
//@   loop 3 common fks == nil || ((planned == nil || GvcBase(planned) != GvcBase(fks)) && (deferred == nil || GvcBase(deferred) != GvcBase(fks)))
//@   loop 3 common 0 <= loopi1 && loopi1 < len(changes) && GvcIs[*schema.DropTable](changes[loopi1]) && 0 <= loopk && loopk <= len(changes[loopi1].(*schema.DropTable).T.ForeignKeys)
//@   loop 3 invariant (forall k int :: 0 <= k && k < len(planned) ==> gvcPlannedOK(planned[k]))
//@   loop 3 invariant (forall k int :: 0 <= k && k < len(deferred) ==> gvcDeferredOK(deferred[k]))
//@   loop 3 invariant (forall q int :: 0 <= q && q < len(fks) ==> GvcIs[*schema.DropForeignKey](fks[q]))
//@   loop 4 common (planned == nil || GvcFresh(planned)) && (deferred == nil || GvcFresh(deferred)) && (fks == nil || GvcFresh(fks)) && (rest == nil || GvcFresh(rest))
//@   loop 4 common planned == nil || deferred == nil || GvcBase(planned) != GvcBase(deferred)
//@   loop 4 common fks == nil || ((planned == nil || GvcBase(planned) != GvcBase(fks)) && (deferred == nil || GvcBase(deferred) != GvcBase(fks)))
//@   loop 4 common rest == nil || ((planned == nil || GvcBase(planned) != GvcBase(rest)) && (deferred == nil || GvcBase(deferred) != GvcBase(rest)) && (fks == nil || GvcBase(fks) != GvcBase(rest)))
//@   loop 4 common 0 <= loopi1 && loopi1 < len(changes) && GvcIs[*schema.ModifyTable](changes[loopi1]) && 0 <= loopk && loopk <= len(changes[loopi1].(*schema.ModifyTable).Changes)
//@   loop 4 invariant (forall k int :: 0 <= k && k < len(planned) ==> gvcPlannedOK(planned[k]))
//@   loop 4 invariant (forall k int :: 0 <= k && k < len(deferred) ==> gvcDeferredOK(deferred[k]))
//@   loop 4 invariant (forall q int :: 0 <= q && q < len(fks) ==> GvcIs[*schema.AddForeignKey](fks[q]))
//@   loop 4 invariant (forall q int :: 0 <= q && q < len(rest) ==> !GvcIs[*schema.AddForeignKey](rest[q]))
