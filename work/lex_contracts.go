//go:build verif

package migrate

// ---------------------------------------------------------------------------------------
// C08 (narrow): the scanner's cursor bookkeeping.  `total` is the absolute offset of the
// cursor in the original input `src`: total == len(src) - len(input) + pos, with input a
// suffix of src and pos inside input.  emit relies on it for Stmt.Pos.

//@ import "unicode/utf8"
//@ spec func gvcCursorOK(s *Scanner) bool {
//@ spec 	return 0 <= s.pos && s.pos <= len(s.input) && len(s.input) <= len(s.src) &&
//@ spec 		s.total == len(s.src)-len(s.input)+s.pos
//@ spec }
//@ extern func utf8.DecodeRuneInString(s string) (r rune, w int)
//@   pure
//@   ensures 0 <= w && w <= len(s) && (len(s) > 0 ==> w >= 1) && r >= 0
//@ import "unicode"
// specNoLead(s, f): no leading rune of s satisfies f (uninterpreted; TrimLeftFunc establishes
// it and is the identity on strings that have it)
//@ spec func specNoLead(s string, f func(rune) bool) bool { panic("uninterpreted") }
//@ func specNoLead(s string, f func(rune) bool) (b bool)
//@   trusted
//@   pure
//@ extern func strings.TrimLeftFunc(s string, f func(rune) bool) (r string)
//@   pure
//@   ensures len(r) <= len(s) && specNoLead(r, f) && (specNoLead(s, f) ==> r == s)
// the current input has no leading white space (so skipSpaces is the identity on it)
//@ spec func gvcTrimmed(s *Scanner) bool { return specNoLead(s.input, unicode.IsSpace) }
//@ extern func strings.TrimSpace(s string) (r string)
//@   pure
//@   ensures len(r) <= len(s)
//@ extern func strings.ReplaceAll(s, old, new string) (r string)
//@   pure
//@ extern func strings.SplitN(s, sep string, n int) (r []string)
//@   ensures len(r) >= 1 && (n > 0 ==> len(r) <= n) && GvcFresh(r)
//@   ensures len(r) == 1 ==> r[0] == s
//@   ensures len(r) == 2 && n == 2 ==> s == r[0]+sep+r[1]
//@ func (s *Scanner) error(pos int, format string, args ...any) (err error)
//@   trusted
//@   ensures err != nil

//@ func (s *Scanner) addPos(p int)
//@   requires s != nil
//@   modifies s.pos, s.total
//@   ensures s.pos == old(s.pos)+p && s.total == old(s.total)+p

//@ func (s *Scanner) next() (r rune)
//@   requires s != nil && gvcCursorOK(s)
//@   modifies s.pos, s.total, s.width
//@   ensures cursor-stays-consistent: gvcCursorOK(s) && s.pos >= old(s.pos)
//@   ensures eos-iff-exhausted: (r == eos) == (old(s.pos) >= len(s.input))
//@   ensures advances-by-width: old(s.pos) < len(s.input) ==> s.pos == old(s.pos)+s.width && s.width >= 1
//@   ensures stays-at-end: old(s.pos) >= len(s.input) ==> r == eos && s.pos == old(s.pos) && s.total == old(s.total) && s.width == old(s.width)

//@ func (s *Scanner) pick() (r rune)
//@   requires s != nil && gvcCursorOK(s)
//@   modifies s.pos, s.total, s.width
//@   ensures cursor-untouched: s.pos == old(s.pos) && s.total == old(s.total) && s.width == old(s.width)

//@ func (s *Scanner) skipSpaces()
//@   requires s != nil && gvcCursorOK(s) && (s.pos == 0 || gvcTrimmed(s))
//@   modifies s.input, s.total
//@   ensures cursor-stays-consistent: gvcCursorOK(s) && s.pos == old(s.pos) && gvcTrimmed(s) && s.src == old(s.src)
//@   ensures identity-on-trimmed-input: old(gvcTrimmed(s)) ==> s.input == old(s.input) && s.total == old(s.total)

//@ func (s *Scanner) emit(text string) (st *Stmt)
//@   requires s != nil && gvcCursorOK(s) && len(text) <= s.pos
//@   modifies s.input, s.pos, s.comments
//@   ensures position-is-absolute-offset: st != nil && st.Pos == old(s.total)-len(text) && len(st.Text) <= len(text)
//@   ensures cursor-stays-consistent: gvcCursorOK(s) && s.pos == 0 && s.total == old(s.total)

//@ func (s *Scanner) setDelim(d string) (err error)
//@   requires s != nil
//@   modifies s.delim
//@   ensures err != nil ==> s.delim == old(s.delim)

//@ func (s *Scanner) init(input string) (err error)
//@   requires s != nil
//@   modifies s.comments, s.pos, s.total, s.width, s.src, s.input, s.delim
//@   ensures cursor-starts-consistent: err == nil ==> gvcCursorOK(s) && s.pos == 0 && s.src == input

//@ func (s *Scanner) delimCmd() (err error)
//@   requires s != nil && gvcCursorOK(s) && s.pos >= len(delimiterCmd) && gvcTrimmed(s)
//@   modifies s.input, s.pos, s.total, s.width, s.delim, s.comments
//@   ensures cursor-stays-consistent: gvcCursorOK(s) && (s.pos == 0 || gvcTrimmed(s)) && s.src == old(s.src)
//@   loop 1 invariant gvcCursorOK(s) && s.pos >= len(delimiterCmd)

// ---- thin safety contracts for the scanning loop and its helpers: with a consistent cursor
// on entry every index and slice expression is in range and the cursor is consistent again
// on exit (termination is not verified).
//@ import "regexp"
//@ extern func (re *regexp.Regexp) MatchString(s string) (b bool)
//@   pure
//@ extern func (re *regexp.Regexp) FindString(s string) (m string)
//@   pure
//@   ensures len(m) <= len(s)
//@ extern func strings.Index(s, substr string) (i int)
//@   pure
//@   ensures i >= -1 && (i >= 0 ==> i+len(substr) <= len(s))
//@ extern func strings.EqualFold(a, b string) (r bool)
//@   pure

//@ func (s *Scanner) skipQuote(quote rune) (err error)
//@   requires s != nil && gvcCursorOK(s)
//@   modifies s.pos, s.total, s.width
//@   ensures gvcCursorOK(s) && s.pos >= old(s.pos)
//@   loop 1 invariant gvcCursorOK(s) && s.pos >= old(s.pos)

//@ func (s *Scanner) skipDollarQuote() (err error)
//@   requires s != nil && gvcCursorOK(s) && s.pos >= 1
//@   modifies s.pos, s.total, s.width
//@   ensures gvcCursorOK(s) && s.pos >= 1
//@   loop 1 invariant gvcCursorOK(s) && s.pos >= 1

//@ func (s *Scanner) skipGoCount() (err error)
//@   requires s != nil && gvcCursorOK(s)
//@   modifies s.pos, s.total, s.width
//@   ensures gvcCursorOK(s) && s.pos >= old(s.pos)
//@   loop 1 invariant gvcCursorOK(s) && s.pos >= c && c >= 0

//@ func (s *Scanner) comment(left, right string)
//@   requires s != nil && gvcCursorOK(s) && gvcTrimmed(s)
//@   modifies s.pos, s.total, s.input, s.comments, heap(E_string)
//@   ensures gvcCursorOK(s) && gvcTrimmed(s)

//@ func (s *Scanner) stmt() (st *Stmt, err error)
//@   requires s != nil && gvcCursorOK(s) && s.pos == 0
//@   modifies *s, heap(E_string)
//@   ensures gvcCursorOK(s) && s.src == old(s.src)
//@   ensures err == nil ==> st != nil && s.pos == 0 && len(st.Text) <= s.total
//@   loop 1 invariant gvcCursorOK(s) && gvcTrimmed(s) && depth >= 0 && s.src == old(s.src)

//@ func (s *Scanner) skipBeginAtomic() (err error)
//@   requires s != nil && gvcCursorOK(s) && s.pos >= 1
//@   modifies s.pos, s.total, heap(E_string)
//@   ensures gvcCursorOK(s) && s.pos >= 1
//@   loop 1 invariant body != nil && gvcCursorOK(body) && body.pos == 0 && len(body.src) == len(s.input)-s.pos && gvcCursorOK(s) && s.pos >= 1 && GvcFresh(body)

//@ func (s *Scanner) skipBeginTryCatch() (err error)
//@   requires s != nil && gvcCursorOK(s) && s.pos >= 1
//@   modifies s.pos, s.total, heap(E_string)
//@   ensures gvcCursorOK(s) && s.pos >= 1
//@   loop 1 invariant body != nil && gvcCursorOK(body) && body.pos == 0 && len(body.src) == len(s.input)-s.pos && gvcCursorOK(s) && s.pos >= 1 && GvcFresh(body)

//@ func (s *Scanner) skipBegin() (err error)
//@   requires s != nil && gvcCursorOK(s) && s.pos >= 1
//@   modifies s.pos, s.total, heap(E_string)
//@   ensures gvcCursorOK(s) && s.pos >= 1
//@   loop 1 invariant group != nil && gvcCursorOK(group) && group.pos == 0 && len(group.src) == len(s.input)-s.pos && gvcCursorOK(s) && s.pos >= 1 && GvcFresh(group)

//@ func (s *Scanner) Scan(input string) (stmts []*Stmt, err error)
//@   requires s != nil
//@   modifies *s, heap(E_string), heap(E_Pmigrate_Stmt)
//@   loop 1 invariant gvcCursorOK(s) && s.pos == 0
