# tiny s-expression helpers for query surgery
def parse(s):
    s=s.strip(); pos=0
    def p():
        nonlocal pos
        while s[pos].isspace(): pos+=1
        if s[pos]=='(':
            pos+=1; out=[]
            while True:
                while s[pos].isspace(): pos+=1
                if s[pos]==')': pos+=1; return out
                out.append(p())
        elif s[pos]=='"':
            j=pos+1
            while s[j]!='"': j+=1
            t=s[pos:j+1]; pos=j+1; return t
        elif s[pos]=='|':
            j=s.index('|',pos+1); t=s[pos:j+1]; pos=j+1; return t
        else:
            j=pos
            while j<len(s) and not s[j].isspace() and s[j] not in '()': j+=1
            t=s[pos:j]; pos=j; return t
    return p()
def show(t):
    return t if isinstance(t,str) else '('+' '.join(show(x) for x in t)+')'
def subst(t,v,r):
    if isinstance(t,str): return r if t==v else t
    return [subst(x,v,r) for x in t]
