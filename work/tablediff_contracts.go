//go:build verif

package sqlx

//@ extern func (n Normalizer) Normalize(from, to *schema.Table, opts *schema.DiffOptions) (err error)
//@ extern func (dd DiffDriver) TableAttrDiff(from, to *schema.Table, o *schema.DiffOptions) (r []schema.Change, err error)

//@ func (d *Diff) indexDiffT(from, to *schema.Table, opts *schema.DiffOptions) (r []schema.Change, err error)
//@   trusted
//@   modifies everything

//@ func (d *Diff) tableDiff(from, to *schema.Table, opts *schema.DiffOptions) (r []schema.Change, err error)
//@   requires d != nil && d.DiffDriver != nil && from != nil && to != nil && opts != nil && NoChange == nil
//@   requires no-change-kind-is-skipped: len(opts.SkipChanges) == 0
//@   modifies everything
