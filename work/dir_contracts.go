//go:build verif

package migrate

// ---------------------------------------------------------------------------------------
// C20 (narrow): directory listings are determined by the directory's contents, not by map
// iteration order or by the order the file system reports names: the result is sorted by name
// and holds exactly the .sql files of the directory.  (Names are unique — map keys, file
// names — so a sorted list of them is unique.)

//@ import "path/filepath"
//@ extern func filepath.Ext(path string) (ext string)
//@   pure
//@ spec func gvcInDir(d *MemDir, k string) bool { _, ok := d.fs[k]; return ok }

//@ func (d *MemDir) Files() (files []File, err error)
//@   requires d != nil
//@   requires (forall k string :: gvcInDir(d, k) ==> d.fs[k] != nil)
//@   modifies nothing
//@   ensures never-fails: err == nil
//@   ensures sorted-by-name: (forall i int, j int :: 0 <= i && i < j && j < len(files) ==> !(files[j].Name() < files[i].Name()))
//@   ensures only-sql-files-of-the-directory: (forall i int :: 0 <= i && i < len(files) ==>
//@           (exists k string :: gvcInDir(d, k) && files[i] == File(d.fs[k]) && filepath.Ext(d.fs[k].Name()) == ".sql"))
//@   ensures every-sql-file-listed: (forall k string :: gvcInDir(d, k) && filepath.Ext(d.fs[k].Name()) == ".sql" ==>
//@           (exists i int :: 0 <= i && i < len(files) && files[i] == File(d.fs[k])))
//@   loop 1 localwrites
//@   loop 1 invariant files != nil && GvcFresh(files)
//@   loop 1 invariant (forall i int :: 0 <= i && i < len(files) ==>
//@           (exists k string :: GvcAget(loopseen, k) && gvcInDir(d, k) && files[i] == File(d.fs[k]) && filepath.Ext(d.fs[k].Name()) == ".sql"))
//@   loop 1 invariant (forall k string :: GvcAget(loopseen, k) && gvcInDir(d, k) && filepath.Ext(d.fs[k].Name()) == ".sql" ==>
//@           (exists i int :: 0 <= i && i < len(files) && files[i] == File(d.fs[k])))
