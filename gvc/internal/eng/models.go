package eng

import (
	"fmt"
	"os"
	"go/constant"
	"go/token"
	"go/types"
	"strings"

	"golang.org/x/tools/go/ssa"
)

// ---------------------------------------------------------------------------------------------
// Intrinsics of the spec prelude

func (e *Engine) intrinsic(fr *Frame, st *State, name string, fn *ssa.Function, args []Val, pos token.Pos) Val {
	switch name {
	case "GvcForall", "GvcExists", "GvcSome":
		polar := name == "GvcSome"
		if polar {
			name = "GvcExists"
		}
		fv, ok := args[0].(*FuncV)
		if !ok {
			e.unsupported("%s needs a function literal", name)
		}
		pt := fv.fn.Signature.Params().At(0).Type()
		sort := e.sortOf(pt)
		if sort == sIface && name == "GvcForall" {
			// the interface sort contains every (dynamic type, pointer) pair including typed nil
			// pointers: `forall c I :: c.(*T) != nil` is unsatisfiable, and as a requires clause it
			// makes every obligation of the function vacuously provable (found on C04, see DESIGN §10)
			e.unsupported("forall over the interface type %s ranges over typed nil values too; quantify over the elements of a slice or over a pointer type instead", pt)
		}
		e.nfresh++
		bv := T{fmt.Sprintf("q%d", e.nfresh), sort}
		e.inlineTerms++
		e.noOblig++
		qs := st.clone()
		qs.pc = tTrue // the quantified formula is used under the caller's path condition
		e.boundVars = append(e.boundVars, bv)
		e.letFrames = append(e.letFrames, nil)
		noLet := len(e.letFrames) - 1
		e.letOff[noLet] = true // no let sharing inside quantifier bodies (index-shifted variants rewrite them textually)
		body := e.callStatic(fr, qs, fv.fn, fv.binds, []Val{bv}, pos)
		e.boundVars = e.boundVars[:len(e.boundVars)-1]
		e.noOblig--
		e.inlineTerms--
		bt := body.(T)
		delete(e.letOff, noLet)
		e.letFrames = e.letFrames[:noLet]
		guard := e.typeInv(bv, pt, 0)
		q := "forall"
		if name == "GvcExists" {
			q = "exists"
			bt = tAnd(guard, bt)
		} else {
			bt = tImp(guard, bt)
		}
		if os.Getenv("GVC_DEBUG_Q") != "" {
			fmt.Fprintf(os.Stderr, "quantifier %s body %d bytes, altForm %d altOnly %d\n", bv.S, len(bt.S), len(e.altForm), len(e.altOnly))
		}
		res := fmt.Sprintf("(%s ((%s %s)) %s)", q, bv.S, sort, bt.S)
		if name == "GvcExists" && sort == sInt {
			vars := shiftedVariants(bt.S, bv.S, func() string { e.nfresh++; return fmt.Sprintf("k%d", e.nfresh) })
			if len(vars) > 0 {
				parts := []string{res}
				for _, v := range vars {
					parts = append(parts, fmt.Sprintf("(exists ((%s Int)) %s)", v.Var, v.Body))
				}
				// used only where the formula has to be proved (there the variants give the
				// solver more instantiation triggers); an assumed existential is skolemised as is
				// the variants are equivalent restatements: where the formula has to be proved they
				// are offered as alternatives (more triggers for the witness), where it is assumed
				// they are all asserted (one skolem witness per syntactic form of the index)
				// Assumed existentials keep the disjunction as well: an existential that is skolemised
				// eagerly feeds matching loops between pairs of forall-exists facts (every element of
				// r comes from s / every kept element of s is in r), the disjunction keeps it lazy.
				if polar || os.Getenv("GVC_POLEXISTS") != "" {
					e.altExistsParts[res] = parts[1:]
				} else {
					res = "(or " + strings.Join(parts, " ") + ")"
				}
			}
		}
		if name == "GvcForall" && sort == sInt {
			// the same statement over the absolute element index, so that instantiation triggers
			// on reads of the backing store match whatever the slice offsets are (see DESIGN §2.4)
			fresh := func() string { e.nfresh++; return fmt.Sprintf("k%d", e.nfresh) }
			bodies := []string{bt.S}
			// nested quantifiers: also start from the bodies whose inner quantifier is already shifted
			// (bounded: the variants are an aid to E-matching, not part of the meaning)
			if len(bt.S) < 20000 {
				for _, inner := range sortedKeys(e.altOnly) {
					shifted := e.altOnly[inner]
					if len(bodies) >= 4 {
						break
					}
					if strings.Contains(bt.S, inner) {
						for _, sh := range shifted {
							if len(bodies) < 4 {
								bodies = append(bodies, strings.ReplaceAll(bt.S, inner, sh))
							}
						}
					}
				}
			}
			if len(bt.S) > 60000 {
				bodies = nil
			}
			var only []string
			for bi, b := range bodies {
				for _, v := range shiftedVariants(b, bv.S, fresh) {
					only = append(only, fmt.Sprintf("(forall ((%s Int)) %s)", v.Var, v.Body))
				}
				if bi > 0 {
					only = append(only, fmt.Sprintf("(forall ((%s Int)) %s)", bv.S, b))
				}
			}
			if len(only) > 0 {
				// the enriched form is used when the formula is assumed, the plain one when it is a goal
				alt := "(and " + res + " " + strings.Join(only, " ") + ")"
				// existentials nested in an assumed universal get their variants according to
				// the polarity of their position inside it
				if len(e.altExistsParts) > 0 && strings.Contains(alt, "(exists ") {
					if tree := parseSx(alt); tree != nil {
						e.noForallAlt++
						alt = e.enrichSx(tree, 1).String()
						e.noForallAlt--
					}
				}
				e.altForm[res] = alt
				e.altOnly[res] = only
			}
		}
		return T{res, sBool}
	case "GvcOld":
		fv, ok := args[0].(*FuncV)
		if !ok {
			e.unsupported("GvcOld needs a function literal")
		}
		old := fr.oldState
		if old == nil {
			e.unsupported("old() used where no pre-state exists (%s)", fr.fn.Name())
		}
		s := old.clone()
		s.pc = tTrue
		// cells captured by the closure belong to the spec frame: copy them over
		for k, v := range st.cells {
			if _, ok := s.cells[k]; !ok {
				s.cells[k] = v
			}
		}
		e.noOblig++
		r := e.callStatic(fr, s, fv.fn, fv.binds, nil, pos)
		e.noOblig--
		return r
	case "GvcHavoc":
		return e.freshOfType(st, fn.Signature.Results().At(0).Type(), "havoc")
	case "GvcAssume":
		e.assume(st, args[0].(T))
		return Tuple{}
	case "GvcAssert":
		label := "assert"
		if c, ok := args[1].(T); ok {
			label = strings.Trim(c.S, `"`)
		}
		e.oblige(st, "assert", label, args[0].(T), pos)
		return Tuple{}
	case "GvcEq":
		// structural equality of two spec values (ghost arrays and structs are not comparable in Go)
		return tEq(e.toTerm(args[0], nil), e.toTerm(args[1], nil))
	case "GvcAget":
		return e.name(tSel(args[0].(T), e.toTerm(args[1], nil)), "ag")
	case "GvcAset":
		return e.name(tStore(args[0].(T), e.toTerm(args[1], nil), e.toTerm(args[2], nil)), "as")
	case "GvcLoopFresh":
		x := args[0].(T)
		if e.loopTimeCtx == "" {
			e.unsupported("GvcLoopFresh outside a loop clause")
		}
		switch x.Sort {
		case sRef:
			return T{fmt.Sprintf("(>= (newid %s) %s)", x.S, e.loopTimeCtx), sBool}
		case sSlice:
			return T{fmt.Sprintf("(>= (newid (sbase %s)) %s)", x.S, e.loopTimeCtx), sBool}
		}
		e.unsupported("GvcLoopFresh on sort %s", x.Sort)
	case "GvcElemsFrame":
		// every backing store of []T that existed at entry, other than the one of s, is unchanged
		if fr.oldState == nil || len(fn.TypeArgs()) != 1 {
			e.unsupported("GvcElemsFrame needs a pre-state")
		}
		et := fn.TypeArgs()[0]
		if _, isS := isStruct(et); isS {
			e.unsupported("GvcElemsFrame on struct elements")
		}
		hn, hs := e.elemHeap(et)
		cur := e.heap(st, hn, hs)
		old := e.heap(fr.oldState, hn, hs)
		x := args[0].(T)
		return T{fmt.Sprintf("(forall ((x Ref)) (! (=> (and (= (newid x) 0) (not (= x (sbase %s)))) (= (select %s x) (select %s x))) :pattern ((select %s x))))", x.S, cur.S, old.S, cur.S), sBool}
	case "GvcSameElems":
		// the backing store of s holds what it held in the pre-state
		if fr.oldState == nil || len(fn.TypeArgs()) != 1 {
			e.unsupported("GvcSameElems needs a pre-state")
		}
		et := fn.TypeArgs()[0]
		if _, isS := isStruct(et); isS {
			e.unsupported("GvcSameElems on struct elements")
		}
		hn, hs := e.elemHeap(et)
		cur := e.heap(st, hn, hs)
		old := e.heap(fr.oldState, hn, hs)
		x := args[0].(T)
		return T{fmt.Sprintf("(= (select %s (sbase %s)) (select %s (sbase %s)))", cur.S, x.S, old.S, x.S), sBool}
	case "GvcDynTypeIs":
		// dynamic type test by type name ("*pkgpath.Name"), usable where the type cannot be imported
		x := args[0].(T)
		nm, ok := args[1].(T)
		if !ok || !strings.HasPrefix(nm.S, "\"") {
			e.unsupported("GvcDynTypeIs needs a constant type name")
		}
		name := strings.Trim(nm.S, "\"")
		ptr := strings.HasPrefix(name, "*")
		name = strings.TrimPrefix(name, "*")
		i := strings.LastIndex(name, ".")
		if i < 0 {
			e.unsupported("GvcDynTypeIs: type name %q must be qualified by its package path", name)
		}
		pk := e.P.AllPkgs[name[:i]]
		if pk == nil {
			e.unsupported("GvcDynTypeIs: package %q is not loaded", name[:i])
		}
		obj := pk.Types.Scope().Lookup(name[i+1:])
		if obj == nil {
			e.unsupported("GvcDynTypeIs: no type %s", name)
		}
		var ty types.Type = obj.Type()
		if ptr {
			ty = types.NewPointer(ty)
		}
		return e.typeTest(x, ty)
	case "GvcBase":
		return T{app("sbase", args[0].(T)), sRef}
	case "GvcFresh":
		x := args[0].(T)
		since := "1"
		if e.freshSince != "" {
			since = e.freshSince
		}
		switch x.Sort {
		case sRef:
			return T{fmt.Sprintf("(>= (newid %s) %s)", x.S, since), sBool}
		case sSlice:
			return T{fmt.Sprintf("(>= (newid (sbase %s)) %s)", x.S, since), sBool}
		case sIface:
			return T{fmt.Sprintf("(>= (newid (iref %s)) %s)", x.S, since), sBool}
		}
		e.unsupported("GvcFresh on sort %s", x.Sort)
	}
	e.unsupported("intrinsic %s", name)
	return nil
}

// ---------------------------------------------------------------------------------------------
// Builtins

func (e *Engine) builtin(fr *Frame, st *State, b *ssa.Builtin, c *ssa.CallCommon, args []Val, pos token.Pos) Val {
	switch b.Name() {
	case "len":
		return e.lenOf(st, args[0], c.Args[0].Type())
	case "cap":
		switch c.Args[0].Type().Underlying().(type) {
		case *types.Slice:
			return T{app("scap", args[0].(T)), sInt}
		}
	case "append":
		return e.appendModel(fr, st, args[0].(T), args[1], c.Args[0].Type(), c.Args[1].Type(), pos, varargsLen(c.Args[1]))
	case "copy":
		return e.copyModel(fr, st, args[0].(T), args[1].(T), c.Args[0].Type(), c.Args[1].Type())
	case "delete":
		m := args[0].(T)
		mt := c.Args[0].Type().Underlying().(*types.Map)
		k := e.toTerm(args[1], mt.Key())
		hn, _, ln := e.mapHeaps(mt)
		ks := e.sortOf(mt.Key())
		hh := e.heap(st, hn, arraySort(sRef, arraySort(ks, sBool)))
		lh := e.heap(st, ln, arraySort(sRef, sInt))
		had := tSel(tSel(hh, m), k)
		e.recStore(st, hn, m)
		e.recStore(st, ln, m)
		e.setHeap(st, ln, tStore(lh, m, tIte(had, T{fmt.Sprintf("(- %s 1)", tSel(lh, m).S), sInt}, tSel(lh, m))))
		e.setHeap(st, hn, tStore(hh, m, tStore(tSel(hh, m), k, tFalse)))
		return Tuple{}
	case "print", "println":
		return Tuple{}
	case "min", "max":
		a, bb := args[0].(T), args[1].(T)
		op := "<="
		if b.Name() == "max" {
			op = ">="
		}
		if a.Sort != sInt || len(args) != 2 {
			e.unsupported("min/max on %s", a.Sort)
		}
		return e.name(tIte(T{app(op, a, bb), sBool}, a, bb), "mm")
	case "ssa:wrapnilchk":
		return args[0]
	case "ssa:deferstack":
		return T{"nil", sRef}
	}
	e.unsupported("builtin %s", b.Name())
	return nil
}

func (e *Engine) lenOf(st *State, v Val, t types.Type) T {
	x := v.(T)
	switch u := t.Underlying().(type) {
	case *types.Slice:
		return T{app("slen", x), sInt}
	case *types.Basic:
		return T{app("str.len", x), sInt}
	case *types.Map:
		_, _, ln := e.mapHeaps(u)
		lh := e.heap(st, ln, arraySort(sRef, sInt))
		r := e.name(tIte(tEq(x, tNil), tInt(0), tSel(lh, x)), "mlen")
		e.assume(st, T{fmt.Sprintf("(<= 0 %s)", r.S), sBool})
		if e.inlineTerms == 0 {
			// cardinality: a map holding a key has length >= 1, two distinct keys >= 2
			hn, _, _ := e.mapHeaps(u)
			ks := e.sortOf(u.Key())
			hh := e.heap(st, hn, arraySort(sRef, arraySort(ks, sBool)))
			hs := e.name(tSel(hh, x), "mkeys")
			e.assume(st, T{fmt.Sprintf("(=> (not (= %s "+tNil.S+")) (forall ((k1 %s)) (! (=> (select %s k1) (>= %s 1)) :pattern ((select %s k1)))))", x.S, ks, hs.S, r.S, hs.S), sBool})
			e.assume(st, T{fmt.Sprintf("(=> (not (= %s "+tNil.S+")) (forall ((k1 %s) (k2 %s)) (! (=> (and (select %s k1) (select %s k2) (not (= k1 k2))) (>= %s 2)) :pattern ((select %s k1) (select %s k2)))))", x.S, ks, ks, hs.S, hs.S, r.S, hs.S, hs.S), sBool})
		}
		return r
	case *types.Array:
		return tInt(u.Len())
	case *types.Pointer:
		if a, ok := u.Elem().Underlying().(*types.Array); ok {
			return tInt(a.Len())
		}
	}
	e.unsupported("len of %s", t)
	return T{}
}

// appendModel: append(s, t...) (t may be a string when s is []byte).
func (e *Engine) appendModel(fr *Frame, st *State, s T, tv Val, sT, tT types.Type, pos token.Pos, known int) Val {
	et := sT.Underlying().(*types.Slice).Elem()
	t := tv.(T)
	if t.Sort == sStr {
		e.unsupported("append([]byte, string...)")
	}
	n1 := T{app("slen", s), sInt}
	n2 := T{app("slen", t), sInt}
	if known >= 0 {
		n2 = tInt(int64(known))
	}
	total := e.name(T{fmt.Sprintf("(+ %s %s)", n1.S, n2.S), sInt}, "n")
	inplace := e.name(T{fmt.Sprintf("(and (<= %s (scap %s)) (not (= (sbase %s) nil)))", total.S, s.S, s.S), sBool}, "inplace")
	nb := e.newObject(st, "grow")
	ncap := e.fresh(sInt, "cap")
	e.assume(st, T{fmt.Sprintf("(>= %s %s)", ncap.S, total.S), sBool})
	// append(s) with nothing appended returns s itself
	rbase := e.nameAlways(tIte(inplace, T{app("sbase", s), sRef}, nb), "rb")
	roff := e.nameAlways(tIte(inplace, T{app("soff", s), sInt}, tInt(0)), "ro")
	rcap := e.nameAlways(tIte(inplace, T{app("scap", s), sInt}, ncap), "rc")
	var res T
	if known == 1 {
		res = e.name(T{fmt.Sprintf("(mk_slice %s %s %s %s)", rbase.S, roff.S, total.S, rcap.S), sSlice}, "app")
	} else {
		res = e.name(T{fmt.Sprintf("(ite (= %s 0) %s (mk_slice %s %s %s %s))", n2.S, s.S, rbase.S, roff.S, total.S, rcap.S), sSlice}, "app")
	}
	if _, isS := isStruct(et); isS && !e.isIntrinsicStruct(et) {
		if known == 1 {
			e.appendOneStruct(st, s, t, et, inplace, nb, res)
		} else {
			e.appendStructElems(st, s, t, et, inplace, nb)
		}
		return res
	}
	hn, hs := e.elemHeap(et)
	h := e.heap(st, hn, hs)
	inner := arraySort(sInt, e.sortOf(et))
	sb, so := T{app("sbase", s), sRef}, T{app("soff", s), sInt}
	tb, to := T{app("sbase", t), sRef}, T{app("soff", t), sInt}
	if known == 1 {
		// append(s, x): one explicit store, no quantifier for the appended element
		x := e.name(tSel(tSel(h, tb), to), "x")
		// (the contents of the grown array are given by the fw/bw axioms below, stated on the
		// result; a separate copy axiom on arr, triggered by reads of arr, formed a matching loop
		// with them: arr[i] -> old[so+i] -> new[fw(so+i)] -> arr[fw(so+i)] -> ...)
		arr := e.fresh(inner, "arr")
		if os.Getenv("GVC_ARRAXIOM") != "" {
			e.assume(st, T{fmt.Sprintf("(forall ((i Int)) (! (=> (and (<= 0 i) (< i %s)) (= (select %s i) (select (select %s %s) (+ %s i)))) :pattern ((select %s i))))", n1.S, arr.S, h.S, sb.S, so.S, arr.S), sBool})
		}
		inpl := tStore(h, sb, tStore(tSel(h, sb), T{fmt.Sprintf("(+ %s %s)", so.S, n1.S), sInt}, x))
		grown := tStore(h, nb, tStore(arr, n1, x))
		e.recStoreIf(st, hn, sb, inplace)
		e.recStore(st, hn, nb)
		if os.Getenv("GVC_APPENDSTORE") != "" {
			e.setHeap(st, hn, tIte(inplace, inpl, grown))
		} else {
			// The result's backing array is a fresh array constant described by the fw/bw axioms and
			// the fact about the appended element only - not `store(old array, len, x)`.  With the
			// store term the array theory copies every index at which the new array is read to the
			// old one (read over write), the forward axiom sends it on to the new one under a new
			// name fw(k) (equal to k when the append is in place, which the E-graph learns late),
			// and so on without end.  What is dropped is sound to drop: that cells of the same
			// backing array outside [off, off+len] keep their value when the append is in place.
			narr := e.fresh(inner, "narr")
			e.setHeap(st, hn, tStore(h, rbase, narr))
		}
		// Old and new elements correspond index by index.  The correspondence is stated with a
		// pair of index-mapping functions private to this append (fw: index in s's backing store
		// -> index in the result's, bw its inverse) instead of index arithmetic in the terms: a
		// forward and a backward axiom written with arithmetic feed each other ever larger index
		// terms (so+(ro+(k-so)-ro), ...), which the solvers do not normalise; with fw/bw the
		// round trip bw(fw(k)) = k closes the cycle in the E-graph after one step.
		nh := e.heap(st, hn, hs)
		e.nfresh++
		fw, bw := fmt.Sprintf("afw!%d", e.nfresh), fmt.Sprintf("abw!%d", e.nfresh)
		e.emitDecl(fmt.Sprintf("(declare-fun %s (Int) Int)", fw))
		e.emitDecl(fmt.Sprintf("(declare-fun %s (Int) Int)", bw))
		rb, ro := "(sbase "+res.S+")", "(soff "+res.S+")"
		// the old backing array as a ground term: facts about s stated over an earlier heap
		// version (before an append to another slice of the same element type) then meet the
		// forward trigger through the array theory's select-over-store reasoning
		oldArr := e.nameAlways(tSel(h, sb), "olda")
		newArr := e.nameAlways(tSel(nh, T{rb, sRef}), "newa")
		// (the index equations hold for every k - fw and bw are the two translations - only the
		// element equation is restricted to the copied range; were the round-trip equation
		// guarded too, an index whose range membership is undecided would restart the cycle)
		e.assume(st, T{fmt.Sprintf("(forall ((k Int)) (! (and (= (%s k) (+ %s (- k %s))) (= (%s (%s k)) k) (=> (and (<= %s k) (< k (+ %s %s))) (= (select %s (%s k)) (select %s k)))) :pattern ((select %s k))))",
			fw, ro, so.S, bw, fw, so.S, so.S, n1.S, newArr.S, fw, oldArr.S, oldArr.S), sBool})
		e.assume(st, T{fmt.Sprintf("(forall ((k Int)) (! (and (= (%s k) (+ %s (- k %s))) (= (%s (%s k)) k) (=> (and (<= %s k) (< k (+ %s %s))) (= (select %s k) (select %s (%s k))))) :pattern ((select %s k))))",
			bw, so.S, ro, fw, bw, ro, ro, n1.S, newArr.S, oldArr.S, bw, newArr.S), sBool})
		// the appended element as a ground read of the result: gives an existential goal about the
		// result ("some k: r[k] is the new element") a term to be instantiated with
		e.assume(st, T{fmt.Sprintf("(= (select %s (+ %s %s)) %s)", newArr.S, ro, n1.S, x.S), sBool})
		return res
	}
	// new backing array contents
	arr := e.fresh(inner, "arr")
	e.assume(st, T{fmt.Sprintf("(forall ((i Int)) (! (=> (and (<= 0 i) (< i %s)) (= (select %s i) (select (select %s %s) (+ %s i)))) :pattern ((select %s i))))", n1.S, arr.S, h.S, sb.S, so.S, arr.S), sBool})
	e.assume(st, T{fmt.Sprintf("(forall ((j Int)) (! (=> (and (<= 0 j) (< j %s)) (= (select %s (+ %s j)) (select (select %s %s) (+ %s j)))) :pattern ((select %s (+ %s j)))))", n2.S, arr.S, n1.S, h.S, tb.S, to.S, arr.S, n1.S), sBool})
	// in-place contents
	arr2 := e.fresh(inner, "arr")
	e.assume(st, T{fmt.Sprintf("(forall ((i Int)) (! (=> (not (and (<= (+ %s %s) i) (< i (+ %s %s)))) (= (select %s i) (select (select %s %s) i))) :pattern ((select %s i))))", so.S, n1.S, so.S, total.S, arr2.S, h.S, sb.S, arr2.S), sBool})
	e.assume(st, T{fmt.Sprintf("(forall ((j Int)) (! (=> (and (<= 0 j) (< j %s)) (= (select %s (+ %s %s j)) (select (select %s %s) (+ %s j)))) :pattern ((select %s (+ %s %s j)))))", n2.S, arr2.S, so.S, n1.S, h.S, tb.S, to.S, arr2.S, so.S, n1.S), sBool})
	nh := tIte(T{fmt.Sprintf("(= %s 0)", n2.S), sBool}, h, tIte(inplace, tStore(h, sb, arr2), tStore(h, nb, arr)))
	e.recStoreIf(st, hn, sb, inplace)
	e.recStore(st, hn, nb)
	e.setHeap(st, hn, nh)
	// contents of the result, triggered by reads of the result
	cur := e.heap(st, hn, hs)
	e.assume(st, T{fmt.Sprintf("(forall ((k Int)) (! (=> (and (<= (soff %s) k) (< k (+ (soff %s) %s))) (= (select (select %s (sbase %s)) k) (select (select %s %s) (+ %s (- k (soff %s)))))) :pattern ((select (select %s (sbase %s)) k))))",
		res.S, res.S, n1.S, cur.S, res.S, h.S, sb.S, so.S, res.S, cur.S, res.S), sBool})
	e.assume(st, T{fmt.Sprintf("(forall ((k Int)) (! (=> (and (<= (+ (soff %s) %s) k) (< k (+ (soff %s) %s))) (= (select (select %s (sbase %s)) k) (select (select %s %s) (+ %s (- k (+ (soff %s) %s)))))) :pattern ((select (select %s (sbase %s)) k))))",
		res.S, n1.S, res.S, total.S, cur.S, res.S, h.S, tb.S, to.S, res.S, n1.S, cur.S, res.S), sBool})
	return res
}

// appendOneStruct: append(s, x) for struct elements: explicit stores per field heap.
func (e *Engine) appendOneStruct(st *State, s, t T, et types.Type, inplace, nb, res T) {
	skey, sty := e.structKeyOf(et)
	n1 := T{app("slen", s), sInt}
	sb, so := T{app("sbase", s), sRef}, T{app("soff", s), sInt}
	tb, to := T{app("sbase", t), sRef}, T{app("soff", t), sInt}
	for i := 0; i < sty.NumFields(); i++ {
		ft := sty.Field(i).Type()
		if _, ok := isStruct(ft); ok {
			e.unsupported("append of structs with nested struct fields")
		}
		hn := e.fieldHeapName(skey, sty, i)
		h := e.heap(st, hn, arraySort(sRef, e.sortOf(ft)))
		x := e.name(tSel(h, T{app("eref", tb, to), sRef}), "x")
		inpl := tStore(h, T{fmt.Sprintf("(eref %s (+ %s %s))", sb.S, so.S, n1.S), sRef}, x)
		g := e.fresh(h.Sort, "gr_"+hn)
		e.assume(st, T{fmt.Sprintf("(forall ((r Ref)) (! (=> (not (and (= (rkind r) 1) (= (ebase r) %s))) (= (select %s r) (select %s r))) :pattern ((select %s r))))", nb.S, g.S, h.S, g.S), sBool})
		e.assume(st, T{fmt.Sprintf("(forall ((i Int)) (! (=> (and (<= 0 i) (< i %s)) (= (select %s (eref %s i)) (select %s (eref %s (+ %s i))))) :pattern ((select %s (eref %s i)))))", n1.S, g.S, nb.S, h.S, sb.S, so.S, g.S, nb.S), sBool})
		e.assume(st, T{fmt.Sprintf("(= (select %s (eref %s %s)) %s)", g.S, nb.S, n1.S, x.S), sBool})
		e.recStoreIf(st, hn, T{sb.S, "ELEMS"}, inplace)
		e.recStore(st, hn, T{nb.S, "ELEMS"})
		e.setHeap(st, hn, tIte(inplace, inpl, g))
		nh := e.heap(st, hn, h.Sort)
		// elements of s and of the result correspond index by index; one axiom over the relative
		// index with a trigger on either side (instantiating it from one side only creates the
		// other side's term for the same index, so the two triggers cannot feed each other)
		e.assume(st, T{fmt.Sprintf("(forall ((i Int)) (! (=> (and (<= 0 i) (< i %s)) (= (select %s (eref (sbase %s) (+ (soff %s) i))) (select %s (eref %s (+ %s i))))) :pattern ((eref %s (+ %s i))) :pattern ((eref (sbase %s) (+ (soff %s) i)))))",
			n1.S, nh.S, res.S, res.S, h.S, sb.S, so.S, sb.S, so.S, res.S, res.S), sBool})
	}
}

func (e *Engine) appendStructElems(st *State, s, t T, et types.Type, inplace, nb T) {
	skey, sty := e.structKeyOf(et)
	n1 := T{app("slen", s), sInt}
	n2 := T{app("slen", t), sInt}
	sb, so := T{app("sbase", s), sRef}, T{app("soff", s), sInt}
	tb, to := T{app("sbase", t), sRef}, T{app("soff", t), sInt}
	for i := 0; i < sty.NumFields(); i++ {
		ft := sty.Field(i).Type()
		if _, ok := isStruct(ft); ok {
			e.unsupported("append of structs with nested struct fields")
		}
		hn := e.fieldHeapName(skey, sty, i)
		h := e.heap(st, hn, arraySort(sRef, e.sortOf(ft)))
		nh := e.fresh(h.Sort, "ap_"+hn)
		// destination base/offset
		db := tIte(inplace, sb, nb)
		do := tIte(inplace, so, tInt(0))
		// unchanged outside the destination range
		e.assume(st, T{fmt.Sprintf("(forall ((x Ref)) (! (=> (not (and (= (rkind x) 1) (= (ebase x) %s) (<= %s (eidx x)) (< (eidx x) (+ %s %s %s)) (or (not %s) (<= (+ %s %s) (eidx x))))) (= (select %s x) (select %s x))) :pattern ((select %s x))))",
			db.S, do.S, do.S, n1.S, n2.S, inplace.S, do.S, n1.S, nh.S, h.S, nh.S), sBool})
		// copied prefix (only when reallocated)
		e.assume(st, T{fmt.Sprintf("(=> (not %s) (forall ((i Int)) (! (=> (and (<= 0 i) (< i %s)) (= (select %s (eref %s i)) (select %s (eref %s (+ %s i))))) :pattern ((eref %s i)))))", inplace.S, n1.S, nh.S, nb.S, h.S, sb.S, so.S, nb.S), sBool})
		// appended elements
		e.assume(st, T{fmt.Sprintf("(forall ((j Int)) (! (=> (and (<= 0 j) (< j %s)) (= (select %s (eref %s (+ %s %s j))) (select %s (eref %s (+ %s j))))) :pattern ((eref %s (+ %s %s j)))))", n2.S, nh.S, db.S, do.S, n1.S, h.S, tb.S, to.S, db.S, do.S, n1.S), sBool})
		e.recStoreIf(st, hn, T{sb.S, "ELEMS"}, inplace)
		e.recStore(st, hn, T{nb.S, "ELEMS"})
		st.heaps[hn] = nh
	}
}

func (e *Engine) copyModel(fr *Frame, st *State, d, s T, dT, sT types.Type) Val {
	if s.Sort == sStr {
		e.unsupported("copy from string")
	}
	et := dT.Underlying().(*types.Slice).Elem()
	if _, isS := isStruct(et); isS {
		e.unsupported("copy of struct elements")
	}
	n := e.name(T{fmt.Sprintf("(ite (<= (slen %s) (slen %s)) (slen %s) (slen %s))", d.S, s.S, d.S, s.S), sInt}, "n")
	hn, hs := e.elemHeap(et)
	h := e.heap(st, hn, hs)
	inner := arraySort(sInt, e.sortOf(et))
	arr := e.fresh(inner, "cp")
	e.assume(st, T{fmt.Sprintf("(forall ((i Int)) (! (= (select %s i) (ite (and (<= (soff %s) i) (< i (+ (soff %s) %s))) (select (select %s (sbase %s)) (+ (soff %s) (- i (soff %s)))) (select (select %s (sbase %s)) i))) :pattern ((select %s i))))",
		arr.S, d.S, d.S, n.S, h.S, s.S, s.S, d.S, h.S, d.S, arr.S), sBool})
	e.recStore(st, hn, T{app("sbase", d), sRef})
	e.setHeap(st, hn, tIte(T{fmt.Sprintf("(= %s 0)", n.S), sBool}, h, tStore(h, T{app("sbase", d), sRef}, arr)))
	return n
}

// ---------------------------------------------------------------------------------------------
// Defers

func (e *Engine) pushDefer(fr *Frame, st *State, d *ssa.Defer) {
	c := d.Common()
	ent := &deferEntry{instr: d, guard: st.pc}
	fr.deferN++
	ent.order = fr.deferN
	for _, a := range c.Args {
		ent.args = append(ent.args, e.val(fr, a))
	}
	if c.IsInvoke() {
		ent.recv = e.val(fr, c.Value)
	} else if _, isB := c.Value.(*ssa.Builtin); !isB {
		ent.fn = e.val(fr, c.Value)
	}
	if li := e.loops(fr.fn); len(li.heads) > 0 {
		for _, body := range li.body {
			if body[d.Block()] {
				e.unsupported("defer inside a loop in %s", fr.fn.Name())
			}
		}
	}
	st.defers[fr.id] = append(st.defers[fr.id], ent)
}

func (e *Engine) runDefers(fr *Frame, st *State) {
	list := st.defers[fr.id]
	for i := len(list) - 1; i >= 0; i-- {
		d := list[i]
		c := d.instr.Common()
		run := st.clone()
		run.pc = e.name(tAnd(st.pc, d.guard), "pc")
		skip := st.clone()
		skip.pc = e.name(tAnd(st.pc, tNot(d.guard)), "pc")
		if run.pc.S != "false" {
			switch {
			case c.IsInvoke():
				e.invoke(fr, run, c.Method, d.recv.(T), d.args, d.instr.Pos())
			case d.fn != nil:
				e.callValue(fr, run, d.fn, d.args, c.Signature(), d.instr.Pos())
			default:
				e.builtin(fr, run, c.Value.(*ssa.Builtin), c, d.args, d.instr.Pos())
			}
		}
		m := e.merge([]*State{run, skip})
		if m == nil {
			st.pc = tFalse
			return
		}
		st.assign(m)
	}
}

// ---------------------------------------------------------------------------------------------
// Range over maps and strings

type iterV struct {
	id   string
	x    T
	t    types.Type
	sort string
}

func (e *Engine) rangeInit(fr *Frame, st *State, r *ssa.Range) Val {
	x := e.val(fr, r.X).(T)
	e.nfresh++
	it := &iterV{id: fmt.Sprintf("IT_%d", e.nfresh), x: x, t: r.X.Type()}
	switch u := r.X.Type().Underlying().(type) {
	case *types.Map:
		ks := e.sortOf(u.Key())
		it.sort = arraySort(ks, sBool)
		st.heaps[it.id] = T{fmt.Sprintf("((as const %s) false)", it.sort), it.sort}
	case *types.Basic:
		it.sort = sInt
		st.heaps[it.id] = tInt(0)
	default:
		e.unsupported("range over %s", r.X.Type())
	}
	e.heapSort[it.id] = it.sort
	return it
}

func (e *Engine) rangeNext(fr *Frame, st *State, n *ssa.Next) Val {
	it := e.val(fr, n.Iter).(*iterV)
	cur := e.heap(st, it.id, it.sort)
	if n.IsString {
		ln := T{app("str.len", it.x), sInt}
		ok := e.name(T{app("<", cur, ln), sBool}, "ok")
		w := e.fresh(sInt, "w")
		ch := e.fresh(sInt, "rune")
		e.assume(st, T{fmt.Sprintf("(and (<= 1 %s) (<= %s 4) (=> %s (<= (+ %s %s) %s)) (<= 0 %s))", w.S, w.S, ok.S, cur.S, w.S, ln.S, ch.S), sBool})
		e.assume(st, T{fmt.Sprintf("(=> (and %s (< %s 128)) (and (= %s 1) (= %s (str.to_code (str.at %s %s)))))", ok.S, ch.S, w.S, ch.S, it.x.S, cur.S), sBool})
		e.assume(st, T{fmt.Sprintf("(=> (and %s (< (str.to_code (str.at %s %s)) 128)) (and (= %s 1) (= %s (str.to_code (str.at %s %s)))))", ok.S, it.x.S, cur.S, w.S, ch.S, it.x.S, cur.S), sBool})
		st.heaps[it.id] = e.name(tIte(ok, T{app("+", cur, w), sInt}, cur), "itpos")
		return Tuple{ok, cur, ch}
	}
	mt := it.t.Underlying().(*types.Map)
	hn, vn, _ := e.mapHeaps(mt)
	ks, vs := e.sortOf(mt.Key()), e.sortOf(mt.Elem())
	hh := e.heap(st, hn, arraySort(sRef, arraySort(ks, sBool)))
	vh := e.heap(st, vn, arraySort(sRef, arraySort(ks, vs)))
	ok := e.fresh(sBool, "ok")
	k := e.fresh(ks, "k")
	has := func(key T) T { return tAnd(tNot(tEq(it.x, tNil)), tSel(tSel(hh, it.x), key)) }
	e.assume(st, tImp(ok, tAnd(has(k), tNot(tSel(cur, k)))))
	e.assume(st, tImp(tNot(ok), T{fmt.Sprintf("(forall ((kk %s)) (! (=> %s (select %s kk)) :pattern ((select %s kk))))", ks, has(T{"kk", ks}).S, cur.S, cur.S), sBool}))
	v := e.name(tSel(tSel(vh, it.x), k), "mv")
	e.assume(st, e.typeInv(v, mt.Elem(), 0))
	st.heaps[it.id] = e.name(tIte(ok, tStore(cur, k, tTrue), cur), "itseen")
	return Tuple{ok, k, v}
}

// ---------------------------------------------------------------------------------------------
// Errors

func (e *Engine) pseudoTypeID(name string) int {
	if id, ok := e.typeIDs[name]; ok {
		return id
	}
	id := len(e.typeList) + 1
	e.typeIDs[name] = id
	e.typeList = append(e.typeList, types.Typ[types.Invalid])
	return id
}

type wrapFact struct{ outer, inner T }
type asType struct {
	key string
	t   types.Type
}

var wrapFacts = map[*Engine][]wrapFact{}
var leafFacts = map[*Engine][]T{}
var asTypes = map[*Engine][]asType{}

func (e *Engine) errIs(a, t T) T {
	return e.name(T{fmt.Sprintf("(or (= %s %s) (and (not (= %s if_nil)) (err_is_u %s %s)))", a.S, t.S, a.S, a.S, t.S), sBool}, "is")
}

func (e *Engine) asFuncs(t types.Type) (string, string) {
	k := e.typeKey(t)
	u, v := "err_as_u_"+k, "err_as_v_"+k
	if !e.declared[u] {
		e.declFun(u, "(Iface) Bool")
		e.declFun(v, "(Iface) Iface")
		asTypes[e] = append(asTypes[e], asType{k, t})
		// value found has the asked type
		e.emitDecl(fmt.Sprintf("(assert (forall ((x Iface)) (! (=> (%s x) %s) :pattern ((%s x)))))", u, e.typeTest(T{fmt.Sprintf("(%s x)", v), sIface}, t).S, u))
		for _, w := range wrapFacts[e] {
			e.emitAsFact(w, asType{k, t})
		}
		for _, l := range leafFacts[e] {
			e.emitDecl(fmt.Sprintf("(assert (= (%s %s) false))", u, l.S))
		}
	}
	return u, v
}

func (e *Engine) errAs(a T, t types.Type) (found, val T) {
	u, v := e.asFuncs(t)
	direct := e.typeTest(a, t)
	found = e.name(T{fmt.Sprintf("(and (not (= %s if_nil)) (or %s (%s %s)))", a.S, direct.S, u, a.S), sBool}, "as")
	val = e.name(tIte(direct, a, T{fmt.Sprintf("(%s %s)", v, a.S), sIface}), "asv")
	return
}

func (e *Engine) emitAsFact(w wrapFact, at asType) {
	u, v := "err_as_u_"+at.key, "err_as_v_"+at.key
	fi, vi := e.errAsRaw(w.inner, at)
	e.emit(fmt.Sprintf("(assert (= (%s %s) %s))", u, w.outer.S, fi.S))
	e.emit(fmt.Sprintf("(assert (=> (%s %s) (= (%s %s) %s)))", u, w.outer.S, v, w.outer.S, vi.S))
}

func (e *Engine) errAsRaw(a T, at asType) (T, T) {
	u, v := "err_as_u_"+at.key, "err_as_v_"+at.key
	direct := e.typeTest(a, at.t)
	found := T{fmt.Sprintf("(and (not (= %s if_nil)) (or %s (%s %s)))", a.S, direct.S, u, a.S), sBool}
	val := tIte(direct, a, T{fmt.Sprintf("(%s %s)", v, a.S), sIface})
	return found, val
}

// addWrap records that error value outer wraps inner (errors.Is / errors.As look through it).
func (e *Engine) addWrap(outer, inner T) {
	if e.inlineTerms > 0 {
		return
	}
	e.emit(fmt.Sprintf("(assert (forall ((t Iface)) (! (= (err_is_u %s t) (and (not (= %s if_nil)) (or (= %s t) (err_is_u %s t)))) :pattern ((err_is_u %s t)))))", outer.S, inner.S, inner.S, inner.S, outer.S))
	w := wrapFact{outer, inner}
	if e.dry == 0 {
		wrapFacts[e] = append(wrapFacts[e], w)
	}
	for _, at := range asTypes[e] {
		e.emitAsFact(w, at)
	}
}

// addLeaf records that error value x wraps nothing.
func (e *Engine) addLeaf(x T) {
	if e.inlineTerms > 0 {
		return
	}
	e.emit(fmt.Sprintf("(assert (forall ((t Iface)) (! (= (err_is_u %s t) false) :pattern ((err_is_u %s t)))))", x.S, x.S))
	if e.dry == 0 {
		leafFacts[e] = append(leafFacts[e], x)
	}
	for _, at := range asTypes[e] {
		e.emit(fmt.Sprintf("(assert (= (err_as_u_%s %s) false))", at.key, x.S))
	}
}

// errorWrapFacts: when a concrete error type is boxed, record what errors.Is/As see through it.
func (e *Engine) errorWrapFacts(st *State, it T, v Val, t types.Type) {
	if e.inlineTerms > 0 || e.dry > 0 {
		return
	}
	ms := e.P.SSA.MethodSets.MethodSet(t)
	if ms.Lookup(nil, "Error") == nil {
		return
	}
	sel := ms.Lookup(nil, "Unwrap")
	if ms.Lookup(nil, "Is") != nil || ms.Lookup(nil, "As") != nil {
		return // custom matching: nothing is known
	}
	if sel == nil {
		e.addLeaf(it)
		return
	}
	fn := e.P.SSA.MethodValue(sel)
	if fn == nil || len(fn.Blocks) == 0 || fn.Signature.Results().Len() != 1 {
		return
	}
	if _, ok := fn.Signature.Results().At(0).Type().Underlying().(*types.Interface); !ok {
		return
	}
	fr := e.cur
	e.noOblig++
	inner := e.inline(fr, st.clone(), fn, nil, []Val{v}, token.NoPos)
	e.noOblig--
	if in, ok := inner.(T); ok {
		e.addWrap(it, e.name(in, "unwrap"))
	}
}

// ---------------------------------------------------------------------------------------------
// Library models

type modelFn func(e *Engine, fr *Frame, st *State, fn *ssa.Function, args []Val, pos token.Pos) Val
type methodModelFn func(e *Engine, fr *Frame, st *State, recv T, args []Val, sig *types.Signature, pos token.Pos) Val

var models map[string]modelFn
var methodModels = map[string]methodModelFn{}

func init() {
	models = map[string]modelFn{
		"fmt.Errorf":        modelErrorf,
		"errors.New":        modelErrorsNew,
		"errors.Is":         modelErrorsIs,
		"errors.As":         modelErrorsAs,
		"errors.Join":       modelErrorsJoin,
		"errors.Unwrap":     nil,
		"fmt.Sprintf":       modelSprintf,
		"fmt.Sprint":        modelOpaqueString,
		"fmt.Sprintln":      modelOpaqueString,
		"time.Now":          modelTimeNow,
		"strings.HasPrefix": strModel2("str.prefixof", true, sBool),
		"strings.HasSuffix": strModel2("str.suffixof", true, sBool),
		"strings.Contains":  strModel2("str.contains", false, sBool),
		"strings.TrimPrefix": func(e *Engine, fr *Frame, st *State, fn *ssa.Function, args []Val, pos token.Pos) Val {
			s, p := args[0].(T), args[1].(T)
			return e.name(T{fmt.Sprintf("(ite (str.prefixof %s %s) (str.substr %s (str.len %s) (- (str.len %s) (str.len %s))) %s)", p.S, s.S, s.S, p.S, s.S, p.S, s.S), sStr}, "trim")
		},
		"strings.TrimSuffix": func(e *Engine, fr *Frame, st *State, fn *ssa.Function, args []Val, pos token.Pos) Val {
			s, p := args[0].(T), args[1].(T)
			return e.name(T{fmt.Sprintf("(ite (str.suffixof %s %s) (str.substr %s 0 (- (str.len %s) (str.len %s))) %s)", p.S, s.S, s.S, s.S, p.S, s.S), sStr}, "trim")
		},
		"strings.Compare": func(e *Engine, fr *Frame, st *State, fn *ssa.Function, args []Val, pos token.Pos) Val {
			a, b := args[0].(T), args[1].(T)
			return e.name(T{fmt.Sprintf("(ite (= %s %s) 0 (ite (str_lt %s %s) (- 1) 1))", a.S, b.S, a.S, b.S), sInt}, "cmp")
		},
		"strings.EqualFold":       nil,
		"slices.BinarySearchFunc": modelBinarySearchFunc,
		"slices.IndexFunc":        modelIndexFunc,
		"slices.ContainsFunc":     modelContainsFunc,
		"slices.Contains":         modelSlicesContains,
		"slices.Equal":            modelSlicesEqual,
		"sort.Strings":            modelSortInPlace,
		"sort.Ints":               modelSortInPlace,
		"sort.Slice":              modelSortInPlace,
		"sort.SliceStable":        modelSortInPlace,
		"slices.Sort":             modelSortInPlace,
		"slices.SortFunc":         modelSortInPlace,
		"slices.SortStableFunc":   modelSortInPlace,
		"reflect.TypeOf":          modelReflectTypeOf,
	}
	for k, v := range models {
		if v == nil {
			delete(models, k)
		}
	}
}

func strModel2(op string, swap bool, sort string) modelFn {
	return func(e *Engine, fr *Frame, st *State, fn *ssa.Function, args []Val, pos token.Pos) Val {
		a, b := args[0].(T), args[1].(T)
		if swap {
			a, b = b, a
		}
		return e.name(T{app(op, a, b), sort}, "s")
	}
}

func (e *Engine) newErrorValue(st *State, tname string) T {
	r := e.newObject(st, "err")
	return e.name(T{fmt.Sprintf("(if_ref %d %s)", e.pseudoTypeID(tname), r.S), sIface}, "err")
}

func constString(v ssa.Value) (string, bool) {
	c, ok := v.(*ssa.Const)
	if !ok || c.Value == nil || c.Value.Kind() != constant.String {
		return "", false
	}
	return constant.StringVal(c.Value), true
}

// varargsElems returns the values stored in a varargs slice built at the call site.
func (e *Engine) sliceElems(st *State, s T, et types.Type, n int) []T {
	var out []T
	for i := 0; i < n; i++ {
		out = append(out, e.loadElem(st, T{app("sbase", s), sRef}, T{fmt.Sprintf("(+ (soff %s) %d)", s.S, i), sInt}, et))
	}
	return out
}

func modelErrorf(e *Engine, fr *Frame, st *State, fn *ssa.Function, args []Val, pos token.Pos) Val {
	// find the format constant at the call site
	format := ""
	known := false
	nargs := -1
	if call := findCall(fr, fn, pos); call != nil {
		format, known = constString(call.Call.Args[0])
		nargs = varargsLen(call.Call.Args[1])
	}
	if !known || nargs < 0 {
		res := e.newErrorValue(st, "*fmt.wrapError")
		return res
	}
	// which verbs are %w
	var wIdx []int
	ai := 0
	for i := 0; i < len(format); i++ {
		if format[i] != '%' {
			continue
		}
		i++
		if i >= len(format) {
			break
		}
		if format[i] == '%' {
			continue
		}
		for i < len(format) && strings.ContainsRune("+-# 0123456789.[]*", rune(format[i])) {
			i++
		}
		if i < len(format) && format[i] == 'w' {
			wIdx = append(wIdx, ai)
		}
		ai++
	}
	var anyT types.Type = types.NewInterfaceType(nil, nil)
	if ps := fn.Signature.Params(); ps.Len() == 2 {
		if sl, ok := ps.At(1).Type().Underlying().(*types.Slice); ok {
			anyT = sl.Elem()
		}
	}
	switch len(wIdx) {
	case 0:
		res := e.newErrorValue(st, "*fmt.fmtError")
		e.addLeaf(res)
		return res
	case 1:
		if wIdx[0] >= nargs {
			break
		}
		elems := e.sliceElems(st, args[1].(T), anyT, nargs)
		inner := e.name(elems[wIdx[0]], "wrapped")
		res := e.newErrorValue(st, "*fmt.wrapError")
		e.addWrap(res, inner)
		return res
	}
	return e.newErrorValue(st, "*fmt.wrapErrors")
}

func findCall(fr *Frame, callee *ssa.Function, pos token.Pos) *ssa.Call {
	for _, b := range fr.fn.Blocks {
		for _, in := range b.Instrs {
			if c, ok := in.(*ssa.Call); ok && c.Pos() == pos && c.Call.StaticCallee() == callee {
				return c
			}
		}
	}
	return nil
}

// varargsLen: length of a varargs slice built as `slice t[:]` of `new [n]T`.
func varargsLen(v ssa.Value) int {
	switch x := v.(type) {
	case *ssa.Slice:
		if a, ok := x.X.(*ssa.Alloc); ok {
			if at, ok := a.Type().(*types.Pointer).Elem().Underlying().(*types.Array); ok {
				return int(at.Len())
			}
		}
	case *ssa.Const:
		if x.Value == nil {
			return 0
		}
	}
	return -1
}

func modelErrorsNew(e *Engine, fr *Frame, st *State, fn *ssa.Function, args []Val, pos token.Pos) Val {
	res := e.newErrorValue(st, "*errors.errorString")
	e.addLeaf(res)
	return res
}

func modelErrorsIs(e *Engine, fr *Frame, st *State, fn *ssa.Function, args []Val, pos token.Pos) Val {
	e.trust("errors.Is/As: modelled through Unwrap chains of the error values constructed in the verified code; foreign errors are opaque (custom Is/As methods ignored)")
	return e.errIs(args[0].(T), args[1].(T))
}

func modelErrorsAs(e *Engine, fr *Frame, st *State, fn *ssa.Function, args []Val, pos token.Pos) Val {
	e.trust("errors.Is/As: modelled through Unwrap chains of the error values constructed in the verified code; foreign errors are opaque (custom Is/As methods ignored)")
	// target: any holding a pointer to a variable of the asked type
	call := findCall(fr, fn, pos)
	if call == nil {
		e.unsupported("errors.As: call site not found")
	}
	targ := call.Call.Args[1]
	mi, ok := targ.(*ssa.MakeInterface)
	if !ok {
		e.unsupported("errors.As target is not a pointer literal")
	}
	pt, ok := mi.X.Type().Underlying().(*types.Pointer)
	if !ok {
		e.unsupported("errors.As target type %s", mi.X.Type())
	}
	asked := pt.Elem()
	found, val := e.errAs(args[0].(T), asked)
	if _, isPtr := asked.Underlying().(*types.Pointer); isPtr {
		e.trust("errors.As: error values never hold typed nil pointers")
		e.assume(st, tImp(found, T{fmt.Sprintf("(not (= (iref %s) nil))", val.S), sBool}))
	}
	// store on success
	ptr := e.val(fr, mi.X)
	s2 := st.clone()
	s2.pc = e.name(tAnd(st.pc, found), "pc")
	payload := val
	var pv Val = payload
	if _, isIface := asked.Underlying().(*types.Interface); !isIface {
		pv = e.unbox(s2, val, asked)
	}
	e.store(s2, ptr, asked, pv)
	s3 := st.clone()
	s3.pc = e.name(tAnd(st.pc, tNot(found)), "pc")
	m := e.merge([]*State{s2, s3})
	if m != nil {
		st.assign(m)
	}
	return found
}

func modelErrorsJoin(e *Engine, fr *Frame, st *State, fn *ssa.Function, args []Val, pos token.Pos) Val {
	call := findCall(fr, fn, pos)
	n := -1
	if call != nil {
		n = varargsLen(call.Call.Args[0])
	}
	if n < 0 {
		return e.freshOfType(st, fn.Signature.Results().At(0).Type(), "join")
	}
	errT := fn.Signature.Results().At(0).Type()
	elems := e.sliceElems(st, args[0].(T), errT, n)
	allNil := tTrue
	for i := range elems {
		elems[i] = e.name(elems[i], "je")
		allNil = tAnd(allNil, tEq(elems[i], tIfNil))
	}
	obj := e.newErrorValue(st, "*errors.joinError")
	// Is: any element; As: first matching element
	var isParts []string
	for _, x := range elems {
		isParts = append(isParts, fmt.Sprintf("(and (not (= %s if_nil)) (or (= %s t) (err_is_u %s t)))", x.S, x.S, x.S))
	}
	e.emit(fmt.Sprintf("(assert (forall ((t Iface)) (! (= (err_is_u %s t) (or %s)) :pattern ((err_is_u %s t)))))", obj.S, strings.Join(isParts, " "), obj.S))
	joinFacts[e] = append(joinFacts[e], joinFact{obj, elems})
	for _, at := range asTypes[e] {
		e.emitJoinAs(joinFact{obj, elems}, at)
	}
	return e.name(tIte(allNil, tIfNil, obj), "joined")
}

type joinFact struct {
	outer T
	elems []T
}

var joinFacts = map[*Engine][]joinFact{}

func (e *Engine) emitJoinAs(j joinFact, at asType) {
	u := "err_as_u_" + at.key
	var parts []string
	for _, x := range j.elems {
		f, _ := e.errAsRaw(x, at)
		parts = append(parts, f.S)
	}
	e.emit(fmt.Sprintf("(assert (= (%s %s) (or %s)))", u, j.outer.S, strings.Join(parts, " ")))
}

func modelOpaqueString(e *Engine, fr *Frame, st *State, fn *ssa.Function, args []Val, pos token.Pos) Val {
	return e.fresh(sStr, "fmt")
}

// modelSprintf: with a constant format and arguments that are all value-boxed (strings,
// integers, booleans) the result is a function of the format and the argument values; any
// pointer-like argument makes it opaque (its text may depend on the heap).
func modelSprintf(e *Engine, fr *Frame, st *State, fn *ssa.Function, args []Val, pos token.Pos) Val {
	call := findCall(fr, fn, pos)
	if call == nil || len(call.Call.Args) != 2 {
		return e.fresh(sStr, "fmt")
	}
	format, known := constString(call.Call.Args[0])
	n := varargsLen(call.Call.Args[1])
	if !known || n < 0 || n > 4 {
		return e.fresh(sStr, "fmt")
	}
	var anyT types.Type = types.NewInterfaceType(nil, nil)
	if sl, ok := fn.Signature.Params().At(1).Type().Underlying().(*types.Slice); ok {
		anyT = sl.Elem()
	}
	f := fmt.Sprintf("sprintf_%d", n)
	doms := "String"
	for i := 0; i < n; i++ {
		doms += " Iface"
	}
	e.declFun(f, fmt.Sprintf("(%s) String", doms))
	e.trust("fmt.Sprintf with a constant format and string/integer/boolean arguments is an uninterpreted function of the format and the argument values")
	if n == 0 {
		return e.name(T{fmt.Sprintf("(%s %s)", f, smtString(format)), sStr}, "fmt")
	}
	elems := e.sliceElems(st, args[1].(T), anyT, n)
	valueBoxed := tTrue
	call2 := "(" + f + " " + smtString(format)
	for _, el := range elems {
		valueBoxed = tAnd(valueBoxed, T{fmt.Sprintf("(or ((_ is if_str) %s) ((_ is if_int) %s) ((_ is if_bool) %s) ((_ is if_bv) %s))", el.S, el.S, el.S, el.S), sBool})
		call2 += " " + el.S
	}
	call2 += ")"
	return e.name(tIte(valueBoxed, T{call2, sStr}, e.fresh(sStr, "fmt")), "fmt")
}

func modelTimeNow(e *Engine, fr *Frame, st *State, fn *ssa.Function, args []Val, pos token.Pos) Val {
	return e.freshOfType(st, fn.Signature.Results().At(0).Type(), "now")
}

// quantInt builds (forall ((i Int)) body(i)) where body is evaluated by the engine with i bound.
func (e *Engine) quantInt(st *State, q string, body func(s *State, i T) T) T {
	e.nfresh++
	bv := T{fmt.Sprintf("q%d", e.nfresh), sInt}
	e.inlineTerms++
	e.noOblig++
	qs := st.clone()
	qs.pc = tTrue
	e.boundVars = append(e.boundVars, bv)
	e.letFrames = append(e.letFrames, nil)
	noLet := len(e.letFrames) - 1
	e.letOff[noLet] = true
	b := body(qs, bv)
	delete(e.letOff, noLet)
	e.letFrames = e.letFrames[:noLet]
	e.boundVars = e.boundVars[:len(e.boundVars)-1]
	e.noOblig--
	e.inlineTerms--
	res := fmt.Sprintf("(%s ((%s Int)) %s)", q, bv.S, b.S)
	vars := shiftedVariants(b.S, bv.S, func() string { e.nfresh++; return fmt.Sprintf("k%d", e.nfresh) })
	if len(vars) > 0 {
		parts := []string{res}
		for _, v := range vars {
			parts = append(parts, fmt.Sprintf("(%s ((%s Int)) %s)", q, v.Var, v.Body))
		}
		if q == "exists" {
			res = "(or " + strings.Join(parts, " ") + ")"
		} else {
			e.altForm[res] = "(and " + strings.Join(parts, " ") + ")"
		}
	}
	return T{res, sBool}
}

func sliceElemType(t types.Type) types.Type {
	return t.Underlying().(*types.Slice).Elem()
}

// elemAt reads s[i] (no bounds obligation).
func (e *Engine) elemAt(st *State, s T, i T, et types.Type) T {
	return e.loadElem(st, T{app("sbase", s), sRef}, T{fmt.Sprintf("(+ (soff %s) %s)", s.S, i.S), sInt}, et)
}

func inRange(i T, s T) T {
	return T{fmt.Sprintf("(and (<= 0 %s) (< %s (slen %s)))", i.S, i.S, s.S), sBool}
}

// slices.BinarySearchFunc(x, target, cmp): assumed to be called on input sorted w.r.t. cmp.
func modelBinarySearchFunc(e *Engine, fr *Frame, st *State, fn *ssa.Function, args []Val, pos token.Pos) Val {
	e.trust("slices.BinarySearchFunc: the slice is sorted with respect to cmp (then found <=> some element compares equal, and the index is the insertion point)")
	x := args[0].(T)
	et := sliceElemType(fn.Signature.Params().At(0).Type())
	sig := fn.Signature.Params().At(2).Type().Underlying().(*types.Signature)
	idx := e.fresh(sInt, "bs_idx")
	found := e.fresh(sBool, "bs_found")
	cmp := func(s *State, i T) T {
		return e.callValue(fr, s, args[2], []Val{e.elemAt(s, x, i, et), args[1]}, sig, pos).(T)
	}
	e.assume(st, T{fmt.Sprintf("(and (<= 0 %s) (<= %s (slen %s)))", idx.S, idx.S, x.S), sBool})
	e.noOblig++
	at := cmp(st.clone(), idx)
	e.noOblig--
	e.assume(st, tImp(found, tAnd(T{fmt.Sprintf("(< %s (slen %s))", idx.S, x.S), sBool}, T{fmt.Sprintf("(= %s 0)", at.S), sBool})))
	e.assume(st, tImp(tNot(found), e.quantInt(st, "forall", func(s *State, i T) T {
		return tImp(inRange(i, x), T{fmt.Sprintf("(not (= %s 0))", cmp(s, i).S), sBool})
	})))
	e.assume(st, e.quantInt(st, "forall", func(s *State, i T) T {
		c := cmp(s, i)
		return tImp(inRange(i, x), T{fmt.Sprintf("(ite (< %s %s) (< %s 0) (>= %s 0))", i.S, idx.S, c.S, c.S), sBool})
	}))
	return Tuple{idx, found}
}

func modelIndexFunc(e *Engine, fr *Frame, st *State, fn *ssa.Function, args []Val, pos token.Pos) Val {
	x := args[0].(T)
	et := sliceElemType(fn.Signature.Params().At(0).Type())
	sig := fn.Signature.Params().At(1).Type().Underlying().(*types.Signature)
	r := e.fresh(sInt, "idx")
	f := func(s *State, i T) T {
		return e.callValue(fr, s, args[1], []Val{e.elemAt(s, x, i, et)}, sig, pos).(T)
	}
	e.assume(st, T{fmt.Sprintf("(and (<= (- 1) %s) (< %s (slen %s)))", r.S, r.S, x.S), sBool})
	e.noOblig++
	at := f(st.clone(), r)
	e.noOblig--
	e.assume(st, tImp(T{fmt.Sprintf("(>= %s 0)", r.S), sBool}, at))
	e.assume(st, e.quantInt(st, "forall", func(s *State, i T) T {
		return tImp(tAnd(inRange(i, x), T{fmt.Sprintf("(or (= %s (- 1)) (< %s %s))", r.S, i.S, r.S), sBool}), tNot(f(s, i)))
	}))
	return r
}

func modelContainsFunc(e *Engine, fr *Frame, st *State, fn *ssa.Function, args []Val, pos token.Pos) Val {
	x := args[0].(T)
	et := sliceElemType(fn.Signature.Params().At(0).Type())
	sig := fn.Signature.Params().At(1).Type().Underlying().(*types.Signature)
	f := func(s *State, i T) T {
		return e.callValue(fr, s, args[1], []Val{e.elemAt(s, x, i, et)}, sig, pos).(T)
	}
	return e.name(e.quantInt(st, "exists", func(s *State, i T) T { return tAnd(inRange(i, x), f(s, i)) }), "contains")
}

// slices.Contains(s, v): some element equals v (no effect).
func modelSlicesContains(e *Engine, fr *Frame, st *State, fn *ssa.Function, args []Val, pos token.Pos) Val {
	x := args[0].(T)
	et := sliceElemType(fn.Signature.Params().At(0).Type())
	if _, isS := isStruct(et); isS {
		e.unsupported("slices.Contains on struct elements")
	}
	v := e.toTerm(args[1], et)
	return e.name(e.quantInt(st, "exists", func(s *State, i T) T { return tAnd(inRange(i, x), tEq(e.elemAt(s, x, i, et), v)) }), "contains")
}

// reflect.TypeOf(x): an interface value identifying the dynamic type of x (nil for nil).
func modelReflectTypeOf(e *Engine, fr *Frame, st *State, fn *ssa.Function, args []Val, pos token.Pos) Val {
	x := args[0].(T)
	return e.name(tIte(tEq(x, tIfNil), tIfNil, T{fmt.Sprintf("(if_int %d (dtyp %s))", e.pseudoTypeID("*reflect.rtype"), x.S), sIface}), "rtype")
}

// slices.Equal(a, b): same length and element-wise equal.
func modelSlicesEqual(e *Engine, fr *Frame, st *State, fn *ssa.Function, args []Val, pos token.Pos) Val {
	a, b := args[0].(T), args[1].(T)
	et := sliceElemType(fn.Signature.Params().At(0).Type())
	all := e.quantInt(st, "forall", func(s *State, i T) T {
		return tImp(inRange(i, a), tEq(e.elemAt(s, a, i, et), e.elemAt(s, b, i, et)))
	})
	return tAnd(T{fmt.Sprintf("(= (slen %s) (slen %s))", a.S, b.S), sBool}, all)
}

// sort.*: the elements of the slice argument are permuted in place; nothing else changes.
// (That the result is sorted, and a permutation, is not modelled.)
func modelSortInPlace(e *Engine, fr *Frame, st *State, fn *ssa.Function, args []Val, pos token.Pos) Val {
	e.trust("sort/slices sorting functions only rearrange the elements of their slice argument")
	call := findCall(fr, fn, pos)
	if call == nil {
		e.unsupported("sort: call site not found")
	}
	argT := call.Call.Args[0].Type()
	var s T
	if mi, ok := call.Call.Args[0].(*ssa.MakeInterface); ok { // sort.Slice(x any, ...)
		argT = mi.X.Type()
		s, _ = e.val(fr, mi.X).(T)
	} else {
		s, _ = args[0].(T)
	}
	sl, ok := argT.Underlying().(*types.Slice)
	if !ok || s.Sort != sSlice {
		e.unsupported("sort of %s", argT)
	}
	et := sl.Elem()
	if _, isS := isStruct(et); isS && !e.isIntrinsicStruct(et) {
		skey, sty := e.structKeyOf(et)
		for i := 0; i < sty.NumFields(); i++ {
			hn := e.fieldHeapName(skey, sty, i)
			h := e.heap(st, hn, arraySort(sRef, e.sortOf(sty.Field(i).Type())))
			nh := e.fresh(h.Sort, "sorted_"+hn)
			e.assume(st, T{fmt.Sprintf("(forall ((x Ref)) (! (=> (not (and (= (rkind x) 1) (= (ebase x) (sbase %s)))) (= (select %s x) (select %s x))) :pattern ((select %s x))))", s.S, nh.S, h.S, nh.S), sBool})
			e.recStore(st, hn, T{"(sbase " + s.S + ")", "ELEMS"})
			st.heaps[hn] = nh
		}
		return Tuple{}
	}
	hn, hs := e.elemHeap(et)
	h := e.heap(st, hn, hs)
	arr := e.fresh(arraySort(sInt, e.sortOf(et)), "sorted")
	e.assume(st, T{fmt.Sprintf("(forall ((i Int)) (! (=> (not (and (<= (soff %s) i) (< i (+ (soff %s) (slen %s))))) (= (select %s i) (select (select %s (sbase %s)) i))) :pattern ((select %s i))))", s.S, s.S, s.S, arr.S, h.S, s.S, arr.S), sBool})
	e.recStore(st, hn, T{"(sbase " + s.S + ")", sRef})
	pre := st.clone()
	e.setHeap(st, hn, tStore(h, T{"(sbase " + s.S + ")", sRef}, arr))
	// the result is a rearrangement: every new element is an old one and the other way round
	e.assume(st, e.quantInt(st, "forall", func(qs *State, i T) T {
		ni := e.elemAt(st, s, i, et)
		return tImp(inRange(i, s), e.quantInt(qs, "exists", func(_ *State, j T) T {
			return tAnd(inRange(j, s), tEq(e.elemAt(pre, s, j, et), ni))
		}))
	}))
	e.assume(st, e.quantInt(st, "forall", func(qs *State, j T) T {
		oj := e.elemAt(pre, s, j, et)
		return tImp(inRange(j, s), e.quantInt(qs, "exists", func(_ *State, i T) T {
			return tAnd(inRange(i, s), tEq(e.elemAt(st, s, i, et), oj))
		}))
	}))
	// and it is ordered: by the comparison function given, or by the natural order
	name := ""
	if fn.Pkg != nil {
		name = fn.Pkg.Pkg.Path() + "." + fn.Name()
	}
	switch {
	case (name == "sort.Slice" || name == "sort.SliceStable") && len(args) == 2:
		sig := fn.Signature.Params().At(1).Type().Underlying().(*types.Signature)
		e.trust("sort.Slice/SliceStable leave the slice ordered by the given less function (no element j > i with less(j, i))")
		e.assume(st, e.quantInt(st, "forall", func(qs *State, i T) T {
			return e.quantInt(qs, "forall", func(q2 *State, j T) T {
				lt, ok := e.callValue(fr, q2, args[1], []Val{j, i}, sig, pos).(T)
				if !ok {
					return tTrue
				}
				return tImp(T{fmt.Sprintf("(and (<= 0 %s) (< %s %s) (< %s (slen %s)))", i.S, i.S, j.S, j.S, s.S), sBool}, tNot(lt))
			})
		}))
	case name == "sort.Strings" || (strings.HasPrefix(name, "slices.Sort") && e.sortOf(et) == sStr && len(args) == 1):
		e.trust("sort.Strings/slices.Sort leave a string slice in non-decreasing order")
		e.assume(st, e.quantInt(st, "forall", func(qs *State, i T) T {
			return e.quantInt(qs, "forall", func(_ *State, j T) T {
				return tImp(T{fmt.Sprintf("(and (<= 0 %s) (< %s %s) (< %s (slen %s)))", i.S, i.S, j.S, j.S, s.S), sBool}, tNot(strLt(e.elemAt(st, s, j, et), e.elemAt(st, s, i, et))))
			})
		}))
	}
	return Tuple{}
}
