package eng

import (
	"fmt"
	"go/token"
	"go/types"
	"os"
	"sort"
	"strings"

	"golang.org/x/tools/go/ssa"
)

// FuncResult is the outcome of generating VCs for one function.
type FuncResult struct {
	Func     string
	Contract *Contract
	Err      string // engine error (function outside the subset, missing contract, ...)
	Obls     []*Obligation
	Lines    []string
	Assumed  []string
	Notes    []string
	Covers   []*Obligation
}

// VerifyFunction generates the obligations of the function a contract is attached to.
func VerifyFunction(p *Program, c *Contract) (res *FuncResult) {
	e := NewEngine(p)
	res = &FuncResult{Func: c.PkgPath + "::" + c.Key, Contract: c}
	defer func() {
		if r := recover(); r != nil {
			if ee, ok := r.(engineError); ok {
				res.Err = ee.msg
				res.Obls = e.Obls
				res.Lines = e.lines
				res.Notes = e.Notes
				return
			}
			panic(r)
		}
	}()
	sp := p.SSAPkgs[c.PkgPath]
	fn := p.lookupFunc(sp, c)
	if fn == nil {
		res.Err = "function not found"
		return
	}
	e.top = fn
	e.topContract = c
	res.Func = e.topName()
	e.verifyTop(fn, c, res)
	res.Obls = e.Obls
	res.Lines = e.lines
	res.Notes = e.Notes
	for a := range e.Assumptions {
		res.Assumed = append(res.Assumed, a)
	}
	sort.Strings(res.Assumed)
	return res
}

func (e *Engine) verifyTop(fn *ssa.Function, c *Contract, res *FuncResult) {
	st := &State{pc: tTrue, cells: map[cellKey]Val{}, heaps: map[string]T{}, defers: map[int][]*deferEntry{}, toff: 1}
	fr := e.newFrame(fn, nil)
	fr.contract = c
	e.cur = fr
	// signature agreement
	want := len(c.Params)
	if c.RecvType != "" && c.Closure == 0 {
		want++
	}
	if want != len(fn.Params) {
		e.unsupported("contract header of %s declares %d parameters, function has %d", c.Key, want, len(fn.Params))
	}
	if len(c.Results) != fn.Signature.Results().Len() {
		e.unsupported("contract header of %s declares %d results, function has %d", c.Key, len(c.Results), fn.Signature.Results().Len())
	}
	for _, cl := range c.Clauses {
		if cl.Broken == "" {
			continue
		}
		if cl.Kind == "invariant" || cl.Kind == "decreases" {
			e.note("dropped %s clause of loop %d: %s", cl.Kind, cl.Loop, cl.Broken)
			continue
		}
		e.unsupported("the contract of %s no longer applies to the code: %s", c.Key, cl.Broken)
	}
	var args []Val
	for _, p := range fn.Params {
		v := e.fresh(e.sortOf(p.Type()), "p_"+p.Name())
		e.assume(st, e.typeInv(v, p.Type(), 0))
		e.assumeOld(st, v, p.Type())
		fr.vals[p] = v
		args = append(args, v)
	}
	// captured variables of a function literal under contract: unknown cells that existed at entry
	for _, fv := range fn.FreeVars {
		cell := e.fresh(sRef, "fv_"+fv.Name())
		e.assume(st, tNot(tEq(cell, tNil)))
		e.assume(st, T{fmt.Sprintf("(= (newid %s) 0)", cell.S), sBool})
		fr.vals[fv] = cell
	}
	if c.Closure > 0 && c.RecvType != "" {
		args = append([]Val{e.capturedValue(fr, st, c.RecvName)}, args...)
	}
	fr.params = args
	// check generated clause signatures against the real one (first clause function suffices per kind)
	e.checkHeader(fn, c)
	// materialise every ghost variable so that "unchanged" can be stated about it
	for path, cf := range e.P.Files {
		sp := e.P.SSAPkgs[path]
		if sp == nil {
			continue
		}
		for _, g := range cf.Ghosts {
			name := strings.Fields(g)[0]
			if gv, ok := sp.Members[name].(*ssa.Global); ok {
				t := gv.Type().(*types.Pointer).Elem()
				if _, isS := isStruct(t); isS {
					e.loadStruct(st, e.globalRef(gv), t)
				} else {
					e.loadGlobal(st, gv)
				}
			}
		}
	}
	entry := st.clone()
	fr.entry = entry
	for _, cl := range c.Clauses {
		if cl.Kind != "requires" {
			continue
		}
		g := e.evalSpec(fr, e.clauseFunc(c, cl), args, st, nil)
		e.assume(st, g)
	}
	// vacuity: the pre-condition must be satisfiable
	res.Covers = append(res.Covers, &Obligation{Name: e.topName() + "#cover:requires", Kind: "cover", PC: "true", Goal: "false", At: len(e.lines)})
	fr.entry = st.clone()
	// footprint (evaluated at entry)
	var fp footprint
	hasMod := false
	var items []Val
	for _, cl := range c.Clauses {
		if cl.Kind == "modifies" {
			hasMod = true
			items = append(items, e.evalModifies(fr, e.clauseFunc(c, cl), args, st)...)
		}
	}
	if hasMod {
		e.applyModItems(st, items, nil, &fp)
	} else {
		fp = footprint{heaps: map[string][]func(T) T{}}
	}
	rets, _ := e.runBlocks(fr, fn.Blocks[0], st, nil, nil)
	// Post-conditions are checked at every return site (instances of the same named
	// obligation) and once more on the merged exit state, which then follows from them.
	if len(rets) > 1 {
		for _, r := range rets {
			if r.st.pc.S == "false" {
				continue
			}
			fullr := append(append([]Val{}, args...), r.results...)
			line := 0
			if r.pos.IsValid() {
				line = e.P.Fset.Position(r.pos).Line
			}
			for _, cl := range c.Clauses {
				if cl.Kind != "ensures" {
					continue
				}
				g := e.evalSpec(fr, e.clauseFunc(c, cl), fullr, r.st, fr.entry)
				lbl := clauseLabel(cl)
				if os.Getenv("GVC_SPLIT_POST") != "" {
					lbl = fmt.Sprintf("%s@L%d", lbl, line)
				}
				e.oblige(r.st.clone(), "post", lbl, g, r.pos)
			}
		}
	}
	out, results := e.mergeReturns(fr, rets)
	if out == nil {
		e.note("no reachable return in %s", fn.Name())
		return
	}
	res.Covers = append(res.Covers, &Obligation{Name: e.topName() + "#cover:exit", Kind: "cover", PC: out.pc.S, Goal: "false", At: len(e.lines)})
	full := append(append([]Val{}, args...), results...)
	if len(rets) <= 1 {
		// with several return sites every post-condition has been checked at each of them;
		// the merged exit state adds nothing (it used to be re-checked assuming the per-site
		// results, which made it the largest and least stable query of a function)
		for _, cl := range c.Clauses {
			if cl.Kind != "ensures" {
				continue
			}
			g := e.evalSpec(fr, e.clauseFunc(c, cl), full, out, fr.entry)
			e.oblige(out, "post", clauseLabel(cl), g, fn.Pos())
		}
	}
	e.frameCheck(fr, out, &fp)
}

// capturedValue loads the current value of the captured variable called name.
func (e *Engine) capturedValue(fr *Frame, st *State, name string) Val {
	for _, fv := range fr.fn.FreeVars {
		if fv.Name() == name {
			t := fv.Type().(*types.Pointer).Elem()
			v := e.load(st, fr.vals[fv], t)
			if tv, ok := v.(T); ok {
				e.assume(st, e.typeInv(tv, t, 0))
				e.assumeOld(st, tv, t)
			}
			return v
		}
	}
	e.unsupported("function literal %s does not capture %s", fr.fn.Name(), name)
	return nil
}

// assumeOld: references reachable directly from parameters existed at entry.
func (e *Engine) assumeOld(st *State, v T, t types.Type) {
	switch v.Sort {
	case sRef:
		e.assume(st, T{fmt.Sprintf("(= (newid %s) 0)", v.S), sBool})
	case sSlice:
		e.assume(st, T{fmt.Sprintf("(= (newid (sbase %s)) 0)", v.S), sBool})
	case sIface:
		e.assume(st, T{fmt.Sprintf("(=> ((_ is if_ref) %s) (= (newid (iref %s)) 0))", v.S, v.S), sBool})
	}
}

// checkHeader compares the contract header's types with the function's signature through
// the generated clause functions (which were type-checked with the header's types).
func (e *Engine) checkHeader(fn *ssa.Function, c *Contract) {
	for _, cl := range c.Clauses {
		if cl.Kind != "requires" && cl.Kind != "ensures" {
			continue
		}
		g := e.P.GenFunc(c, cl)
		if g == nil {
			continue
		}
		var real []types.Type
		if c.Closure > 0 && c.RecvType != "" {
			for _, fv := range fn.FreeVars {
				if fv.Name() == c.RecvName {
					real = append(real, fv.Type().(*types.Pointer).Elem())
				}
			}
		}
		for _, p := range fn.Params {
			real = append(real, p.Type())
		}
		if cl.Kind == "ensures" {
			rs := fn.Signature.Results()
			for i := 0; i < rs.Len(); i++ {
				real = append(real, rs.At(i).Type())
			}
		}
		if len(g.Params) != len(real) {
			e.unsupported("contract header of %s does not match the function (arity)", c.Key)
		}
		for i, p := range g.Params {
			if !types.Identical(p.Type(), real[i]) && !(c.TypeParams != "" && types.TypeString(p.Type(), nil) == types.TypeString(real[i], nil)) {
				e.unsupported("contract header of %s: parameter %d has type %s, function has %s", c.Key, i, p.Type(), real[i])
			}
		}
	}
}

// frameCheck: every heap that differs from its entry value may differ only inside the
// declared footprint or on objects allocated by this call.
func (e *Engine) frameCheck(fr *Frame, out *State, fp *footprint) {
	if fp.everything {
		return
	}
	entry := fr.entry
	names := map[string]bool{}
	for h := range out.heaps {
		names[h] = true
	}
	if out.epoch != entry.epoch {
		// an unrestricted havoc happened
		e.oblige(out, "frame", "no-unrestricted-effect", tFalse, fr.fn.Pos())
		return
	}
	var hs []string
	for h := range names {
		hs = append(hs, h)
	}
	sort.Strings(hs)
	for _, h := range hs {
		if strings.HasPrefix(h, "IT_") {
			continue
		}
		final := out.heaps[h]
		init := e.heap(entry, h, e.heapSort[h])
		if final.S == init.S {
			continue
		}
		preds := fp.heaps[h]
		whole := false
		for _, p := range preds {
			if p == nil {
				whole = true
			}
		}
		if whole {
			continue
		}
		label := heapLabel(h)
		if !strings.HasPrefix(final.Sort, "(Array Ref ") {
			e.oblige(out, "frame", label, tEq(final, init), fr.fn.Pos())
			continue
		}
		x := e.fresh(sRef, "fx")
		in := tFalse
		for _, p := range preds {
			in = tOr(in, p(x))
		}
		goal := tImp(tAnd(tNot(in), T{fmt.Sprintf("(= (newid %s) 0)", x.S), sBool}), tEq(tSel(final, x), tSel(init, x)))
		e.oblige(out, "frame", label, goal, fr.fn.Pos())
	}
}

func heapLabel(h string) string { return h }

var _ = token.NoPos

// ContextCovers returns, for every obligation of res, cover queries with the same context and
// the goal `false` - one per disjunct of the obligation's path condition (a merged state's
// path condition is the disjunction of the paths merged): if a solver answers unsat that path
// is contradictory and the obligation was (or would be) discharged vacuously on it.  Audit aid
// (`gvc vc -audit`): dead code gives such contexts legitimately, so the answers are for a
// human to look at.
func ContextCovers(res *FuncResult) []*Obligation {
	defs := map[string]string{}
	for _, l := range res.Lines {
		if strings.HasPrefix(l, "(define-fun ") && strings.Contains(l, " () Bool ") {
			rest := l[len("(define-fun "):]
			sp := strings.Index(rest, " ")
			name := rest[:sp]
			body := rest[sp+len(" () Bool "):]
			defs[name] = strings.TrimSuffix(body, ")")
		}
	}
	var disjuncts func(pc string, depth int) []string
	disjuncts = func(pc string, depth int) []string {
		body := pc
		if d, ok := defs[pc]; ok {
			body = d
		}
		t := parseSx(body)
		if t == nil || !t.isL || t.head() != "or" || depth > 3 {
			return []string{pc}
		}
		var out []string
		for _, ch := range t.list[1:] {
			out = append(out, disjuncts(ch.String(), depth+1)...)
		}
		return out
	}
	var out []*Obligation
	for _, o := range res.Obls {
		ds := disjuncts(o.PC, 0)
		if len(ds) > 12 {
			ds = []string{o.PC}
		}
		for k, d := range ds {
			c := *o
			c.Name = fmt.Sprintf("%s#context%d/%d", o.Name, k+1, len(ds))
			c.Kind = "cover"
			c.PC = d
			c.Goal = "false"
			c.Status, c.Solver, c.Model, c.Millis = "", "", "", 0
			out = append(out, &c)
		}
	}
	return out
}
