package eng

import (
	"regexp"
	"fmt"
	"go/constant"
	"go/types"
	"math/big"
	"os"
	"strings"
)

// T is an SMT term with its sort.
type T struct {
	S    string
	Sort string
}

func (t T) String() string { return t.S }

// Val is an engine value: T, Tuple, *FuncV, *CellPtr, *FieldPtr, *ElemPtr, *MergeV.
type Val interface{}

// Tuple is a multi-value.
type Tuple []Val

const (
	sInt   = "Int"
	sBool  = "Bool"
	sRef   = "Ref"
	sStr   = "String"
	sSlice = "Slice"
	sIface = "Iface"
	sBV    = "(_ BitVec 64)"
	sFunc  = "Func"
	sReal  = "Real"
)

var (
	tTrue  = T{"true", sBool}
	tFalse = T{"false", sBool}
	tNil   = T{"nil", sRef}
	tIfNil = T{"if_nil", sIface}
)

func tInt(n int64) T {
	if n < 0 {
		return T{fmt.Sprintf("(- %d)", -n), sInt}
	}
	return T{fmt.Sprintf("%d", n), sInt}
}

func app(f string, args ...T) string {
	var b strings.Builder
	b.WriteString("(")
	b.WriteString(f)
	for _, a := range args {
		b.WriteString(" ")
		b.WriteString(a.S)
	}
	b.WriteString(")")
	return b.String()
}

func tAnd(a, b T) T {
	switch {
	case a.S == "true":
		return b
	case b.S == "true":
		return a
	case a.S == "false" || b.S == "false":
		return tFalse
	case a.S == b.S:
		return a
	}
	return T{app("and", a, b), sBool}
}

func tOr(a, b T) T {
	switch {
	case a.S == "false":
		return b
	case b.S == "false":
		return a
	case a.S == "true" || b.S == "true":
		return tTrue
	case a.S == b.S:
		return a
	}
	return T{app("or", a, b), sBool}
}

func tNot(a T) T {
	switch a.S {
	case "true":
		return tFalse
	case "false":
		return tTrue
	}
	if strings.HasPrefix(a.S, "(not ") && balanced(a.S[5:len(a.S)-1]) {
		return T{a.S[5 : len(a.S)-1], sBool}
	}
	return T{app("not", a), sBool}
}

func balanced(s string) bool {
	d := 0
	inStr := false
	for i := 0; i < len(s); i++ {
		c := s[i]
		if inStr {
			if c == '"' {
				inStr = false
			}
			continue
		}
		switch c {
		case '"':
			inStr = true
		case '(':
			d++
		case ')':
			d--
			if d < 0 {
				return false
			}
		case ' ':
			if d == 0 {
				return false
			}
		}
	}
	return d == 0
}

func tImp(a, b T) T {
	switch {
	case a.S == "true":
		return b
	case a.S == "false" || b.S == "true":
		return tTrue
	}
	return T{app("=>", a, b), sBool}
}

func tEq(a, b T) T {
	if a.S == b.S {
		return tTrue
	}
	return T{app("=", a, b), sBool}
}

func tIte(c, a, b T) T {
	switch {
	case c.S == "true":
		return a
	case c.S == "false":
		return b
	case a.S == b.S:
		return a
	}
	if a.Sort == sBool {
		switch {
		case a.S == "true":
			return tOr(c, b)
		case a.S == "false":
			return tAnd(tNot(c), b)
		case b.S == "true":
			return tOr(tNot(c), a)
		case b.S == "false":
			return tAnd(c, a)
		}
	}
	return T{app("ite", c, a, b), a.Sort}
}

func tSel(arr, idx T) T {
	return T{app("select", arr, idx), arrayElem(arr.Sort)}
}

func tStore(arr, idx, v T) T {
	return T{app("store", arr, idx, v), arr.Sort}
}

func arraySort(k, v string) string { return "(Array " + k + " " + v + ")" }

// arrayElem extracts the element sort of "(Array K V)".
func arrayElem(s string) string {
	k, v := arrayKV(s)
	_ = k
	return v
}

func arrayKV(s string) (string, string) {
	if !strings.HasPrefix(s, "(Array ") {
		panic("not an array sort: " + s)
	}
	body := s[7 : len(s)-1]
	// first sort token
	end := sortEnd(body, 0)
	return body[:end], strings.TrimSpace(body[end:])
}

func sortEnd(s string, i int) int {
	if s[i] != '(' {
		j := strings.IndexByte(s[i:], ' ')
		if j < 0 {
			return len(s)
		}
		return i + j
	}
	d := 0
	for j := i; j < len(s); j++ {
		switch s[j] {
		case '(':
			d++
		case ')':
			d--
			if d == 0 {
				return j + 1
			}
		}
	}
	return len(s)
}

func smtString(s string) string {
	var b strings.Builder
	b.WriteByte('"')
	for _, c := range []byte(s) {
		switch {
		case c == '"':
			b.WriteString(`""`)
		case c == '\\':
			b.WriteString(`\u{5c}`)
		case c >= 32 && c < 127:
			b.WriteByte(c)
		default:
			fmt.Fprintf(&b, `\u{%x}`, c)
		}
	}
	b.WriteByte('"')
	return b.String()
}

func sortID(s string) string {
	r := strings.NewReplacer("(", "", ")", "", " ", "_", "_ BitVec 64", "BV")
	if s == sBV {
		return "BV"
	}
	return r.Replace(s)
}

// ---------------------------------------------------------------------------------------------
// Go types → sorts

func isStruct(t types.Type) (*types.Struct, bool) {
	s, ok := t.Underlying().(*types.Struct)
	return s, ok
}

func isUnsignedBV(t types.Type) bool {
	b, ok := t.Underlying().(*types.Basic)
	if !ok {
		return false
	}
	switch b.Kind() {
	case types.Uint, types.Uint64, types.Uint32, types.Uint16, types.Uintptr:
		return true
	case types.Uint8:
		// a *named* 8-bit unsigned type is a flag set (PlanMode, ...): bit-vector; plain bytes stay Int
		_, named := t.(*types.Named)
		return named
	}
	return false
}

// typeKey is a canonical, SMT-identifier-safe name for a Go type.
func (e *Engine) typeKey(t types.Type) string {
	t = e.subst(t)
	if _, isTP := t.(*types.TypeParam); isTP && os.Getenv("GVC_DEBUG_TP") != "" {
		fmt.Fprintf(os.Stderr, "typeKey of type parameter %s; frames:", t)
		for f := e.cur; f != nil; f = f.caller {
			fmt.Fprintf(os.Stderr, " %s(tsubst=%v)", f.fn.Name(), f.tsubst != nil)
		}
		fmt.Fprintln(os.Stderr)
	}
	s := types.TypeString(t, func(p *types.Package) string { return p.Name() })
	if k, ok := e.typeKeys[s]; ok {
		return k
	}
	var b strings.Builder
	for _, r := range s {
		switch {
		case r >= 'a' && r <= 'z', r >= 'A' && r <= 'Z', r >= '0' && r <= '9', r == '_':
			b.WriteRune(r)
		case r == '*':
			b.WriteString("P")
		case r == '.':
			b.WriteString("_")
		case r == '[':
			b.WriteString("L")
		case r == ']':
			b.WriteString("J")
		}
	}
	k := b.String()
	if len(k) > 60 {
		k = fmt.Sprintf("%s_%d", k[:50], len(e.typeKeys))
	}
	// ensure uniqueness
	for _, other := range e.typeKeys {
		if other == k {
			k = fmt.Sprintf("%s_%d", k, len(e.typeKeys))
			break
		}
	}
	e.typeKeys[s] = k
	return k
}

// sortOf maps a Go type to its SMT sort, declaring struct datatypes on demand.
func (e *Engine) sortOf(t types.Type) string {
	t = e.subst(t)
	switch u := t.Underlying().(type) {
	case *types.Basic:
		switch {
		case u.Info()&types.IsBoolean != 0:
			return sBool
		case u.Info()&types.IsString != 0:
			return sStr
		case u.Info()&types.IsFloat != 0:
			return sReal
		case u.Kind() == types.UnsafePointer:
			return sRef
		case u.Kind() == types.UntypedNil:
			return sRef
		case isUnsignedBV(t):
			return sBV
		case u.Info()&types.IsInteger != 0:
			return sInt
		}
	case *types.Pointer, *types.Map, *types.Chan:
		return sRef
	case *types.Signature:
		return sFunc
	case *types.Slice:
		return sSlice
	case *types.Interface:
		return sIface
	case *types.Struct:
		return e.structSort(t, u)
	case *types.Array:
		return arraySort(sInt, e.sortOf(u.Elem()))
	case *types.Tuple:
		return "TUPLE"
	}
	if tp, ok := t.(*types.TypeParam); ok {
		// an uninstantiated type parameter: values are handled through their constraint
		if ci, ok := tp.Constraint().Underlying().(*types.Interface); ok {
			if ci.NumEmbeddeds() == 1 && ci.NumMethods() == 0 {
				if u, ok := ci.EmbeddedType(0).(*types.Union); ok && u.Len() == 1 {
					return e.sortOf(u.Term(0).Type())
				}
			}
			return sIface
		}
	}
	e.unsupported("type %s", t)
	return sInt
}

// structSort declares (once) the datatype of a struct type.
func (e *Engine) structSort(t types.Type, st *types.Struct) string {
	// intrinsic generic types
	if n, ok := t.(*types.Named); ok {
		switch n.Origin().Obj().Name() {
		case "GvcArr":
			ta := n.TypeArgs()
			return arraySort(e.sortOf(ta.At(0)), e.sortOf(ta.At(1)))
		}
	}
	key := e.typeKey(t)
	if s, ok := e.structSorts[key]; ok {
		return s
	}
	name := "S_" + key
	e.structSorts[key] = name
	var fields []string
	for i := 0; i < st.NumFields(); i++ {
		fs := e.sortOf(st.Field(i).Type())
		fields = append(fields, fmt.Sprintf("(%s %s)", e.fieldSel(name, st, i), fs))
	}
	if len(fields) == 0 {
		e.emitDecl(fmt.Sprintf("(declare-datatypes ((%s 0)) (((mk_%s))))", name, name))
	} else {
		e.emitDecl(fmt.Sprintf("(declare-datatypes ((%s 0)) (((mk_%s %s))))", name, name, strings.Join(fields, " ")))
	}
	e.structInfo[name] = st
	return name
}

func (e *Engine) fieldSel(sortName string, st *types.Struct, i int) string {
	fn := st.Field(i).Name()
	if fn == "_" {
		fn = fmt.Sprintf("blank%d", i)
	}
	return fmt.Sprintf("%s__%s", sortName, fn)
}

// zero returns the zero value of a Go type.
func (e *Engine) zero(t types.Type) T {
	t = e.subst(t)
	s := e.sortOf(t)
	return e.zeroOfSort(s, t)
}

func (e *Engine) zeroOfSort(s string, t types.Type) T {
	switch s {
	case sInt:
		return T{"0", sInt}
	case sBool:
		return tFalse
	case sStr:
		return T{`""`, sStr}
	case sRef:
		return tNil
	case sSlice:
		return T{"nil_slice", sSlice}
	case sIface:
		return tIfNil
	case sBV:
		return T{"#x0000000000000000", sBV}
	case sFunc:
		return T{"nil_func", sFunc}
	case sReal:
		return T{"0.0", sReal}
	}
	if strings.HasPrefix(s, "(Array ") {
		k, v := arrayKV(s)
		var et types.Type
		if t != nil {
			if a, ok := t.Underlying().(*types.Array); ok {
				et = a.Elem()
			} else if n, ok := t.(*types.Named); ok && n.TypeArgs() != nil && n.TypeArgs().Len() == 2 {
				et = n.TypeArgs().At(1)
			}
		}
		_ = k
		z := e.zeroOfSort(v, et)
		return e.constArray(s, z)
	}
	if st, ok := e.structInfo[s]; ok {
		if st.NumFields() == 0 {
			return T{"mk_" + s, s}
		}
		var args []T
		for i := 0; i < st.NumFields(); i++ {
			args = append(args, e.zero(st.Field(i).Type()))
		}
		return T{app("mk_"+s, args...), s}
	}
	e.unsupported("zero of sort %s", s)
	return T{"0", s}
}

// constant converts a Go constant of type t.
func (e *Engine) constTerm(c constant.Value, t types.Type) T {
	s := e.sortOf(t)
	if c == nil {
		return e.zeroOfSort(s, t)
	}
	switch s {
	case sBool:
		if constant.BoolVal(c) {
			return tTrue
		}
		return tFalse
	case sStr:
		return T{smtString(constant.StringVal(c)), sStr}
	case sInt:
		if c.Kind() == constant.Float {
			c = constant.ToInt(c)
		}
		bi, ok := constant.Val(c).(*big.Int)
		if !ok {
			if i64, ok2 := constant.Int64Val(c); ok2 {
				return tInt(i64)
			}
			e.unsupported("int constant %v", c)
		}
		if bi.Sign() < 0 {
			return T{"(- " + new(big.Int).Neg(bi).String() + ")", sInt}
		}
		return T{bi.String(), sInt}
	case sBV:
		u, _ := constant.Uint64Val(c)
		return T{fmt.Sprintf("#x%016x", u), sBV}
	case sReal:
		f, _ := constant.Float64Val(c)
		return T{fmt.Sprintf("%f", f), sReal}
	}
	e.unsupported("constant %v of sort %s", c, s)
	return T{"0", s}
}

var nilTokRe = regexp.MustCompile(`(^|[ (])(nil|nil_slice)([ )]|$)`)

// constArray is the array of sort s whose every element is z.  cvc5 only accepts value
// literals in (as const …); an element mentioning the uninterpreted constant nil gets a named
// array with a quantified definition instead.
func (e *Engine) constArray(s string, z T) T {
	if !nilTokRe.MatchString(z.S) {
		return T{fmt.Sprintf("((as const %s) %s)", s, z.S), s}
	}
	key := "constarr|" + s + "|" + z.S
	if n, ok := e.constArrs[key]; ok {
		return T{n, s}
	}
	k, _ := arrayKV(s)
	n := e.freshName("carr")
	e.emitDecl(fmt.Sprintf("(declare-const %s %s)", n, s))
	e.emitDecl(fmt.Sprintf("(assert (forall ((i %s)) (! (= (select %s i) %s) :pattern ((select %s i)))))", k, n, z.S, n))
	if e.constArrs == nil {
		e.constArrs = map[string]string{}
	}
	e.constArrs[key] = n
	return T{n, s}
}
