package eng

import (
	"fmt"
	"go/token"
	"go/types"
	"strings"

	"golang.org/x/tools/go/ssa"
)

// isCellAlloc: a local whose address is only loaded from / stored to / captured by closures
// (for structs: also through field addresses used the same way).  Such locals are kept as
// values in the symbolic store instead of heap objects.
func (e *Engine) isCellAlloc(a *ssa.Alloc) bool {
	t := a.Type().(*types.Pointer).Elem()
	if _, ok := t.Underlying().(*types.Array); ok {
		return false
	}
	return cellUses(a, a)
}

func cellUses(v ssa.Value, root ssa.Value) bool {
	refs := v.Referrers()
	if refs == nil {
		return true
	}
	for _, r := range *refs {
		switch x := r.(type) {
		case *ssa.UnOp:
			if x.Op != token.MUL {
				return false
			}
		case *ssa.Store:
			if x.Addr != v {
				return false // the address itself is stored somewhere
			}
		case *ssa.DebugRef:
		case *ssa.MakeClosure:
			// captured by a closure: fine as long as closures are inlined
			if v != root {
				return false
			}
		case *ssa.FieldAddr:
			if x.X != v {
				return false
			}
			ft := x.Type().(*types.Pointer).Elem()
			if _, isArr := ft.Underlying().(*types.Array); isArr {
				return false
			}
			if !cellUses(x, root) {
				return false
			}
		default:
			return false
		}
	}
	return true
}

func deref(t types.Type) types.Type {
	if p, ok := t.Underlying().(*types.Pointer); ok {
		return p.Elem()
	}
	return t
}

// step executes one non-terminator instruction.
func (e *Engine) step(fr *Frame, st *State, instr ssa.Instruction) {
	switch x := instr.(type) {
	case *ssa.DebugRef:
		return
	case *ssa.Alloc:
		t := x.Type().(*types.Pointer).Elem()
		if e.isCellAlloc(x) {
			k := cellKey{fr.id, x}
			if _, isSig := t.Underlying().(*types.Signature); isSig {
				st.cells[k] = T{"nil_func", sFunc}
			} else {
				st.cells[k] = e.zero(t)
			}
			fr.vals[x] = &CellPtr{key: k}
			return
		}
		r := e.newObject(st, sanitize(x.Comment))
		if at, ok := t.Underlying().(*types.Array); ok {
			// backing store: elements zero
			e.zeroElems(st, r, at.Elem())
		} else {
			e.storePointee(st, r, t, e.zero(t))
		}
		fr.vals[x] = r
	case *ssa.Store:
		p := e.val(fr, x.Addr)
		t := deref(x.Addr.Type())
		e.nilCheck(fr, st, p, x.Pos(), "store")
		v := e.val(fr, x.Val)
		if fr.spec {
			switch v.(type) {
			case *FieldPtr, *ElemPtr, *CellPtr, *GlobalPtr:
				return // spec code lists locations in a literal (modifies clauses)
			}
		}
		e.store(st, p, t, v)
	case *ssa.UnOp:
		fr.vals[x] = e.unop(fr, st, x)
	case *ssa.BinOp:
		fr.vals[x] = e.binop(fr, st, x.Op, e.val(fr, x.X), e.val(fr, x.Y), x.X.Type(), x.Pos())
	case *ssa.FieldAddr:
		base := e.val(fr, x.X)
		if cp, isCell := base.(*CellPtr); isCell {
			np := &CellPtr{key: cp.key, path: append(append([]int{}, cp.path...), x.Field), ptypes: append(append([]types.Type{}, cp.ptypes...), deref(x.X.Type()))}
			fr.vals[x] = np
			return
		}
		bt, ok := base.(T)
		if !ok {
			e.unsupported("field address on %T", base)
		}
		e.nilCheckT(fr, st, bt, x.X, x.Pos())
		stT := deref(x.X.Type())
		skey, s := e.structKeyOf(stT)
		ft := s.Field(x.Field).Type()
		if _, ok := isStruct(ft); ok && !e.isIntrinsicStruct(ft) {
			fr.vals[x] = e.fldRef(bt, skey, s, x.Field)
			return
		}
		if at, ok := ft.Underlying().(*types.Array); ok {
			_ = at
			// by-value array field: give it a sub-object reference used as backing store
			fr.vals[x] = e.fldRef(bt, skey, s, x.Field)
			return
		}
		fr.vals[x] = &FieldPtr{base: bt, heap: e.fieldHeapName(skey, s, x.Field), ftype: ft}
	case *ssa.Field:
		v := e.val(fr, x.X).(T)
		s := x.X.Type().Underlying().(*types.Struct)
		sort := e.sortOf(x.X.Type())
		fr.vals[x] = e.name(T{fmt.Sprintf("(%s %s)", e.fieldSel(sort, s, x.Field), v.S), e.sortOf(s.Field(x.Field).Type())}, "f")
	case *ssa.IndexAddr:
		e.indexAddr(fr, st, x)
	case *ssa.Index:
		xv := e.val(fr, x.X).(T)
		iv := e.val(fr, x.Index).(T)
		switch u := x.X.Type().Underlying().(type) {
		case *types.Array:
			e.oblige(st, "safe-index", e.exprLabel(fr.fn, x.Pos(), "index"), T{fmt.Sprintf("(and (<= 0 %s) (< %s %d))", iv.S, iv.S, u.Len()), sBool}, x.Pos())
			fr.vals[x] = tSel(xv, iv)
		case *types.Basic: // string
			e.oblige(st, "safe-index", e.exprLabel(fr.fn, x.Pos(), "index"), T{fmt.Sprintf("(and (<= 0 %s) (< %s (str.len %s)))", iv.S, iv.S, xv.S), sBool}, x.Pos())
			fr.vals[x] = e.name(T{fmt.Sprintf("(str.to_code (str.at %s %s))", xv.S, iv.S), sInt}, "ch")
		default:
			e.unsupported("Index on %s", x.X.Type())
		}
	case *ssa.Lookup:
		e.lookup(fr, st, x)
	case *ssa.Slice:
		e.sliceOp(fr, st, x)
	case *ssa.MakeSlice:
		ln := e.val(fr, x.Len).(T)
		cp := e.val(fr, x.Cap).(T)
		e.oblige(st, "safe-make", e.exprLabel(fr.fn, x.Pos(), "make"), T{fmt.Sprintf("(and (<= 0 %s) (<= %s %s))", ln.S, ln.S, cp.S), sBool}, x.Pos())
		r := e.newObject(st, "mkslice")
		et := x.Type().Underlying().(*types.Slice).Elem()
		e.zeroElems(st, r, et)
		fr.vals[x] = e.name(T{fmt.Sprintf("(mk_slice %s 0 %s %s)", r.S, ln.S, cp.S), sSlice}, "s")
	case *ssa.MakeMap:
		r := e.newObject(st, "map")
		mt := x.Type().Underlying().(*types.Map)
		hn, vn, ln := e.mapHeaps(mt)
		ks, vs := e.sortOf(mt.Key()), e.sortOf(mt.Elem())
		hh := e.heap(st, hn, arraySort(sRef, arraySort(ks, sBool)))
		e.recStore(st, hn, r)
		e.recStore(st, vn, r)
		e.recStore(st, ln, r)
		e.setHeap(st, hn, tStore(hh, r, T{fmt.Sprintf("((as const %s) false)", arraySort(ks, sBool)), arraySort(ks, sBool)}))
		vh := e.heap(st, vn, arraySort(sRef, arraySort(ks, vs)))
		e.setHeap(st, vn, tStore(vh, r, e.constArray(arraySort(ks, vs), e.zero(mt.Elem()))))
		lh := e.heap(st, ln, arraySort(sRef, sInt))
		e.setHeap(st, ln, tStore(lh, r, tInt(0)))
		fr.vals[x] = r
	case *ssa.MapUpdate:
		m := e.val(fr, x.Map).(T)
		mt := x.Map.Type().Underlying().(*types.Map)
		e.oblige(st, "safe-map", e.exprLabel(fr.fn, x.Pos(), "mapupdate"), tNot(tEq(m, tNil)), x.Pos())
		k := e.toTerm(e.val(fr, x.Key), mt.Key())
		v := e.toTerm(e.val(fr, x.Value), mt.Elem())
		hn, vn, ln := e.mapHeaps(mt)
		ks, vs := e.sortOf(mt.Key()), e.sortOf(mt.Elem())
		hh := e.heap(st, hn, arraySort(sRef, arraySort(ks, sBool)))
		had := tSel(tSel(hh, m), k)
		lh := e.heap(st, ln, arraySort(sRef, sInt))
		e.recStore(st, hn, m)
		e.recStore(st, vn, m)
		e.recStore(st, ln, m)
		e.setHeap(st, ln, tStore(lh, m, tIte(had, tSel(lh, m), T{fmt.Sprintf("(+ %s 1)", tSel(lh, m).S), sInt})))
		e.setHeap(st, hn, tStore(hh, m, tStore(tSel(hh, m), k, tTrue)))
		vh := e.heap(st, vn, arraySort(sRef, arraySort(ks, vs)))
		e.setHeap(st, vn, tStore(vh, m, tStore(tSel(vh, m), k, v)))
	case *ssa.MakeClosure:
		fv := &FuncV{fn: x.Fn.(*ssa.Function)}
		for _, b := range x.Bindings {
			fv.binds = append(fv.binds, e.val(fr, b))
		}
		fr.vals[x] = fv
	case *ssa.MakeInterface:
		v := e.val(fr, x.X)
		if e.noOblig > 0 {
			// spec code may box interior pointers (modifies clauses); keep them as they are
			switch v.(type) {
			case *FieldPtr, *ElemPtr, *CellPtr, *GlobalPtr:
				fr.vals[x] = v
				return
			}
		}
		it := e.makeIface(st, v, x.X.Type())
		it = e.name(it, "if")
		e.errorWrapFacts(st, it, v, x.X.Type())
		fr.vals[x] = it
	case *ssa.ChangeInterface:
		fr.vals[x] = e.val(fr, x.X)
	case *ssa.ChangeType:
		fr.vals[x] = e.val(fr, x.X)
	case *ssa.Convert:
		fr.vals[x] = e.convert(fr, st, x)
	case *ssa.TypeAssert:
		e.typeAssert(fr, st, x)
	case *ssa.Extract:
		tup := e.val(fr, x.Tuple)
		tt, ok := tup.(Tuple)
		if !ok {
			e.unsupported("extract from %T", tup)
		}
		fr.vals[x] = tt[x.Index]
	case *ssa.Phi:
		var pcs []T
		var vs []Val
		// edge conditions are not tracked per predecessor; a phi in naive form only arises for
		// && / || whose value is determined by the incoming edge: recover it from the preds'
		// branch conditions.
		e.phi(fr, st, x, &pcs, &vs)
	case *ssa.Call:
		r := e.call(fr, st, x, x.Common(), x.Pos())
		fr.vals[x] = r
	case *ssa.Defer:
		e.pushDefer(fr, st, x)
	case *ssa.RunDefers:
		e.runDefers(fr, st)
	case *ssa.Range:
		fr.vals[x] = e.rangeInit(fr, st, x)
	case *ssa.Next:
		fr.vals[x] = e.rangeNext(fr, st, x)
	case *ssa.Go, *ssa.Send, *ssa.Select:
		e.unsupported("concurrency instruction %T in %s", instr, fr.fn.Name())
	default:
		e.unsupported("instruction %T (%s) in %s", instr, instr, fr.fn.Name())
	}
}

func (e *Engine) zeroElems(st *State, r T, et types.Type) {
	if _, ok := isStruct(et); ok && !e.isIntrinsicStruct(et) {
		// struct elements live in field heaps at eref(r,i); fresh object: assume zero lazily is not
		// possible without quantifiers; state it with one.
		skey, s := e.structKeyOf(et)
		for i := 0; i < s.NumFields(); i++ {
			ft := s.Field(i).Type()
			if _, ok := isStruct(ft); ok {
				continue // nested by-value structs of fresh elements: left unconstrained
			}
			hn := e.fieldHeapName(skey, s, i)
			h := e.heap(st, hn, arraySort(sRef, e.sortOf(ft)))
			e.assume(st, T{fmt.Sprintf("(forall ((i Int)) (! (= (select %s (eref %s i)) %s) :pattern ((eref %s i))))", h.S, r.S, e.zero(ft).S, r.S), sBool})
		}
		return
	}
	hn, hs := e.elemHeap(et)
	h := e.heap(st, hn, hs)
	inner := arraySort(sInt, e.sortOf(et))
	e.recStore(st, hn, r)
	e.setHeap(st, hn, tStore(h, r, e.constArray(inner, e.zero(et))))
}

func (e *Engine) mapHeaps(mt *types.Map) (has, val, ln string) {
	k := e.typeKey(mt.Key()) + "_" + e.typeKey(mt.Elem())
	return "MH_" + k, "MV_" + k, "ML_" + k
}

// nilCheck emits a nil-dereference obligation for pointer value p when it is a Ref term of
// unknown origin.
func (e *Engine) nilCheck(fr *Frame, st *State, p Val, pos token.Pos, what string) {
	if t, ok := p.(T); ok {
		e.nilCheckT(fr, st, t, nil, pos)
	}
}

func (e *Engine) nilCheckT(fr *Frame, st *State, t T, src ssa.Value, pos token.Pos) {
	if strings.HasPrefix(t.S, "new_") || strings.HasPrefix(t.S, "gref_") || strings.HasPrefix(t.S, "(fld_") || strings.HasPrefix(t.S, "(eref ") {
		return
	}
	if st.nonnil[t.S] {
		return
	}
	if st.nonnil == nil {
		st.nonnil = map[string]bool{}
	}
	if e.dry == 0 && e.noOblig == 0 {
		st.nonnil[t.S] = true
	}
	label := "deref"
	if src != nil {
		label = e.valueLabel(fr, src, pos)
	} else {
		label = e.exprLabel(fr.fn, pos, "deref")
	}
	e.oblige(st, "safe-nil", label, tNot(tEq(t, tNil)), pos)
}

// valueLabel describes the pointer being dereferenced in source terms.
func (e *Engine) valueLabel(fr *Frame, v ssa.Value, pos token.Pos) string {
	// prefer the debug name of the value
	if refs := v.Referrers(); refs != nil {
		for _, r := range *refs {
			if d, ok := r.(*ssa.DebugRef); ok {
				txt := strings.Join(strings.Fields(e.P.Source(d.Expr.Pos(), d.Expr.End())), " ")
				if txt != "" && len(txt) < 70 {
					return txt
				}
			}
		}
	}
	return e.exprLabel(fr.fn, pos, v.Name())
}

func (e *Engine) unop(fr *Frame, st *State, x *ssa.UnOp) Val {
	switch x.Op {
	case token.MUL:
		p := e.val(fr, x.X)
		t := deref(x.X.Type())
		if pt, ok := p.(T); ok {
			e.nilCheckT(fr, st, pt, x.X, x.Pos())
		}
		v := e.load(st, p, t)
		if tv, ok := v.(T); ok {
			if _, isCell := p.(*CellPtr); !isCell {
				tv = e.name(tv, "ld")
				e.assume(st, e.typeInv(tv, t, 0))
				return tv
			}
		}
		return v
	case token.NOT:
		return tNot(e.val(fr, x.X).(T))
	case token.SUB:
		v := e.val(fr, x.X).(T)
		if v.Sort == sBV {
			return T{app("bvneg", v), sBV}
		}
		return T{app("-", v), v.Sort}
	case token.XOR:
		v := e.val(fr, x.X).(T)
		if v.Sort == sBV {
			return T{app("bvnot", v), sBV}
		}
		e.unsupported("^ on mathematical integer")
	case token.ARROW:
		e.unsupported("channel receive")
	}
	e.unsupported("unary %s", x.Op)
	return nil
}

func (e *Engine) binop(fr *Frame, st *State, op token.Token, av, bv Val, at types.Type, pos token.Pos) Val {
	// function value comparison with nil
	if _, ok := at.Underlying().(*types.Signature); ok {
		isNil := func(v Val) (T, bool) {
			switch f := v.(type) {
			case *FuncV:
				return tFalse, true
			case *MergeV:
				// nil exactly under the guards whose alternative is the nil function
				r := tFalse
				for i, alt := range f.vals {
					if t, ok := alt.(T); ok {
						r = tOr(r, tAnd(f.guards[i], tEq(t, T{"nil_func", sFunc})))
					}
				}
				return r, true
			case T:
				return tEq(f, T{"nil_func", sFunc}), true
			}
			return tFalse, false
		}
		var other Val = av
		if t, ok := av.(T); ok && t.S == "nil_func" {
			other = bv
		}
		c, _ := isNil(other)
		if op == token.NEQ {
			return tNot(c)
		}
		return c
	}
	a, ok1 := av.(T)
	b, ok2 := bv.(T)
	if !ok1 || !ok2 {
		// pointer comparisons of engine-level pointers
		if op == token.EQL || op == token.NEQ {
			eq := tFalse
			if sameVal(av, bv) {
				eq = tTrue
			} else if ok1 && a.S == "nil" || ok2 && b.S == "nil" {
				eq = tFalse
			} else {
				e.unsupported("comparison of %T and %T", av, bv)
			}
			if op == token.NEQ {
				return tNot(eq)
			}
			return eq
		}
		e.unsupported("binary %s on %T, %T", op, av, bv)
	}
	s := a.Sort
	mk := func(f string, sort string) T { return e.name(T{app(f, a, b), sort}, "b") }
	switch op {
	case token.EQL:
		return e.name(tEq(a, b), "b")
	case token.NEQ:
		return e.name(tNot(tEq(a, b)), "b")
	}
	switch s {
	case sInt:
		switch op {
		case token.ADD:
			return mk("+", sInt)
		case token.SUB:
			return mk("-", sInt)
		case token.MUL:
			return mk("*", sInt)
		case token.QUO:
			e.oblige(st, "safe-div", e.exprLabel(fr.fn, pos, "div"), tNot(tEq(b, tInt(0))), pos)
			// Go truncates toward zero
			return e.name(T{fmt.Sprintf("(ite (>= %s 0) (ite (> %s 0) (div %s %s) (- (div %s (- %s)))) (ite (> %s 0) (- (div (- %s) %s)) (div (- %s) (- %s))))", a.S, b.S, a.S, b.S, a.S, b.S, b.S, a.S, b.S, a.S, b.S), sInt}, "q")
		case token.REM:
			e.oblige(st, "safe-div", e.exprLabel(fr.fn, pos, "rem"), tNot(tEq(b, tInt(0))), pos)
			return e.name(T{fmt.Sprintf("(ite (>= %s 0) (mod %s (abs %s)) (- (mod (- %s) (abs %s))))", a.S, a.S, b.S, a.S, b.S), sInt}, "r")
		case token.LSS:
			return mk("<", sBool)
		case token.LEQ:
			return mk("<=", sBool)
		case token.GTR:
			return mk(">", sBool)
		case token.GEQ:
			return mk(">=", sBool)
		}
	case sBV:
		m := map[token.Token]string{token.ADD: "bvadd", token.SUB: "bvsub", token.MUL: "bvmul", token.AND: "bvand", token.OR: "bvor", token.XOR: "bvxor", token.SHL: "bvshl", token.SHR: "bvlshr", token.QUO: "bvudiv", token.REM: "bvurem"}
		if f, ok := m[op]; ok {
			if op == token.SHL || op == token.SHR {
				if b.Sort != sBV {
					e.unsupported("shift by mathematical integer")
				}
			}
			return mk(f, sBV)
		}
		switch op {
		case token.AND_NOT:
			return e.name(T{fmt.Sprintf("(bvand %s (bvnot %s))", a.S, b.S), sBV}, "b")
		case token.LSS:
			return mk("bvult", sBool)
		case token.LEQ:
			return mk("bvule", sBool)
		case token.GTR:
			return mk("bvugt", sBool)
		case token.GEQ:
			return mk("bvuge", sBool)
		}
	case sStr:
		switch op {
		case token.ADD:
			return mk("str.++", sStr)
		case token.LSS:
			return e.name(strLt(a, b), "b")
		case token.LEQ:
			return e.name(strLe(a, b), "b")
		case token.GTR:
			return e.name(strLt(b, a), "b")
		case token.GEQ:
			return e.name(strLe(b, a), "b")
		}
	case sBool:
		switch op {
		case token.AND, token.LAND:
			return tAnd(a, b)
		case token.OR, token.LOR:
			return tOr(a, b)
		}
	case sReal:
		m := map[token.Token]string{token.ADD: "+", token.SUB: "-", token.MUL: "*", token.QUO: "/", token.LSS: "<", token.LEQ: "<=", token.GTR: ">", token.GEQ: ">="}
		if f, ok := m[op]; ok {
			sort := sReal
			if op == token.LSS || op == token.LEQ || op == token.GTR || op == token.GEQ {
				sort = sBool
			}
			return mk(f, sort)
		}
	}
	e.unsupported("binary %s on sort %s", op, s)
	return nil
}

func (e *Engine) indexAddr(fr *Frame, st *State, x *ssa.IndexAddr) {
	iv := e.val(fr, x.Index).(T)
	switch u := x.X.Type().Underlying().(type) {
	case *types.Slice:
		sv := e.val(fr, x.X).(T)
		e.oblige(st, "safe-index", e.exprLabel(fr.fn, x.Pos(), "index"), T{fmt.Sprintf("(and (<= 0 %s) (< %s (slen %s)))", iv.S, iv.S, sv.S), sBool}, x.Pos())
		base := T{app("sbase", sv), sRef}
		idx := e.name(T{fmt.Sprintf("(+ (soff %s) %s)", sv.S, iv.S), sInt}, "ix")
		fr.vals[x] = e.elemAddr(base, idx, u.Elem())
	case *types.Pointer: // *array
		at := u.Elem().Underlying().(*types.Array)
		pv := e.val(fr, x.X)
		pt, ok := pv.(T)
		if !ok {
			e.unsupported("index of array through %T", pv)
		}
		e.nilCheckT(fr, st, pt, x.X, x.Pos())
		e.oblige(st, "safe-index", e.exprLabel(fr.fn, x.Pos(), "index"), T{fmt.Sprintf("(and (<= 0 %s) (< %s %d))", iv.S, iv.S, at.Len()), sBool}, x.Pos())
		fr.vals[x] = e.elemAddr(pt, iv, at.Elem())
	default:
		e.unsupported("IndexAddr on %s", x.X.Type())
	}
}

func (e *Engine) elemAddr(base, idx T, et types.Type) Val {
	if _, ok := isStruct(et); ok && !e.isIntrinsicStruct(et) {
		return T{app("eref", base, idx), sRef}
	}
	return &ElemPtr{base: base, idx: idx, etype: et}
}

func (e *Engine) lookup(fr *Frame, st *State, x *ssa.Lookup) {
	switch u := x.X.Type().Underlying().(type) {
	case *types.Map:
		m := e.val(fr, x.X).(T)
		k := e.toTerm(e.val(fr, x.Index), u.Key())
		hn, vn, _ := e.mapHeaps(u)
		ks, vs := e.sortOf(u.Key()), e.sortOf(u.Elem())
		hh := e.heap(st, hn, arraySort(sRef, arraySort(ks, sBool)))
		vh := e.heap(st, vn, arraySort(sRef, arraySort(ks, vs)))
		has := e.name(tAnd(tNot(tEq(m, tNil)), tSel(tSel(hh, m), k)), "has")
		v := e.name(tIte(has, tSel(tSel(vh, m), k), e.zero(u.Elem())), "mv")
		e.assume(st, e.typeInv(v, u.Elem(), 0))
		if x.CommaOk {
			fr.vals[x] = Tuple{v, has}
		} else {
			fr.vals[x] = v
		}
	case *types.Basic:
		s := e.val(fr, x.X).(T)
		i := e.val(fr, x.Index).(T)
		e.oblige(st, "safe-index", e.exprLabel(fr.fn, x.Pos(), "index"), T{fmt.Sprintf("(and (<= 0 %s) (< %s (str.len %s)))", i.S, i.S, s.S), sBool}, x.Pos())
		c := e.name(T{fmt.Sprintf("(str.to_code (str.at %s %s))", s.S, i.S), sInt}, "ch")
		e.assume(st, T{fmt.Sprintf("(and (<= 0 %s) (<= %s 255))", c.S, c.S), sBool})
		fr.vals[x] = c
	default:
		e.unsupported("Lookup on %s", x.X.Type())
	}
}

func (e *Engine) sliceOp(fr *Frame, st *State, x *ssa.Slice) {
	get := func(v ssa.Value) (T, bool) {
		if v == nil {
			return T{}, false
		}
		return e.val(fr, v).(T), true
	}
	lo, hasLo := get(x.Low)
	hi, hasHi := get(x.High)
	mx, hasMax := get(x.Max)
	if !hasLo {
		lo = tInt(0)
	}
	label := e.exprLabel(fr.fn, x.Pos(), "slice")
	switch u := x.X.Type().Underlying().(type) {
	case *types.Basic: // string
		s := e.val(fr, x.X).(T)
		if !hasHi {
			hi = T{app("str.len", s), sInt}
		}
		e.oblige(st, "safe-slice", label, T{fmt.Sprintf("(and (<= 0 %s) (<= %s %s) (<= %s (str.len %s)))", lo.S, lo.S, hi.S, hi.S, s.S), sBool}, x.Pos())
		fr.vals[x] = e.name(T{fmt.Sprintf("(str.substr %s %s (- %s %s))", s.S, lo.S, hi.S, lo.S), sStr}, "sub")
	case *types.Slice:
		s := e.val(fr, x.X).(T)
		if !hasHi {
			hi = T{app("slen", s), sInt}
		}
		capT := T{app("scap", s), sInt}
		if hasMax {
			e.oblige(st, "safe-slice", label, T{fmt.Sprintf("(and (<= 0 %s) (<= %s %s) (<= %s %s) (<= %s %s))", lo.S, lo.S, hi.S, hi.S, mx.S, mx.S, capT.S), sBool}, x.Pos())
			capT = mx
		} else {
			e.oblige(st, "safe-slice", label, T{fmt.Sprintf("(and (<= 0 %s) (<= %s %s) (<= %s %s))", lo.S, lo.S, hi.S, hi.S, capT.S), sBool}, x.Pos())
		}
		fr.vals[x] = e.name(T{fmt.Sprintf("(mk_slice (sbase %s) (+ (soff %s) %s) (- %s %s) (- %s %s))", s.S, s.S, lo.S, hi.S, lo.S, capT.S, lo.S), sSlice}, "s")
	case *types.Pointer:
		at := u.Elem().Underlying().(*types.Array)
		p := e.val(fr, x.X).(T)
		n := tInt(at.Len())
		if !hasHi {
			hi = n
		}
		e.oblige(st, "safe-slice", label, T{fmt.Sprintf("(and (<= 0 %s) (<= %s %s) (<= %s %s))", lo.S, lo.S, hi.S, hi.S, n.S), sBool}, x.Pos())
		if lo.S == "0" {
			fr.vals[x] = e.name(T{fmt.Sprintf("(mk_slice %s 0 %s %s)", p.S, hi.S, n.S), sSlice}, "s")
		} else {
			fr.vals[x] = e.name(T{fmt.Sprintf("(mk_slice %s %s (- %s %s) (- %s %s))", p.S, lo.S, hi.S, lo.S, n.S, lo.S), sSlice}, "s")
		}
	default:
		e.unsupported("Slice on %s", x.X.Type())
	}
}

func (e *Engine) convert(fr *Frame, st *State, x *ssa.Convert) Val {
	if c, ok := x.X.(*ssa.Const); ok && c.Value != nil {
		if b, isB := x.Type().Underlying().(*types.Basic); isB && b.Info()&types.IsNumeric != 0 {
			return e.constTerm(c.Value, x.Type())
		}
	}
	v := e.val(fr, x.X)
	from, to := x.X.Type(), x.Type()
	fs, ts := e.sortOf(from), e.sortOf(to)
	tv, ok := v.(T)
	if !ok {
		e.unsupported("convert of %T", v)
	}
	if fs == ts {
		if fs == sInt {
			e.trust("A-ARITH: integer conversions and arithmetic are mathematical (no overflow/truncation)")
		}
		return tv
	}
	switch {
	case fs == sStr && ts == sSlice:
		// []byte(s): fresh backing store holding the bytes of s
		r := e.newObject(st, "bytes")
		et := to.Underlying().(*types.Slice).Elem()
		hn, hs := e.elemHeap(et)
		h := e.heap(st, hn, hs)
		arr := e.fresh(arraySort(sInt, e.sortOf(et)), "bytes")
		e.assume(st, T{fmt.Sprintf("(forall ((i Int)) (! (=> (and (<= 0 i) (< i (str.len %s))) (= (select %s i) (str.to_code (str.at %s i)))) :pattern ((select %s i))))", tv.S, arr.S, tv.S, arr.S), sBool})
		e.recStore(st, hn, r)
		e.setHeap(st, hn, tStore(h, r, arr))
		e.declFun("bytes_str", "((Array Int Int) Int Int) String")
		e.assume(st, T{fmt.Sprintf("(= (bytes_str %s 0 (str.len %s)) %s)", arr.S, tv.S, tv.S), sBool})
		return e.name(T{fmt.Sprintf("(mk_slice %s 0 (str.len %s) (str.len %s))", r.S, tv.S, tv.S), sSlice}, "s")
	case fs == sSlice && ts == sStr:
		// string(b): a function of the bytes actually stored
		et := from.Underlying().(*types.Slice).Elem()
		hn, hs := e.elemHeap(et)
		h := e.heap(st, hn, hs)
		e.declFun("bytes_str", "((Array Int Int) Int Int) String")
		res := e.name(T{fmt.Sprintf("(bytes_str (select %s (sbase %s)) (soff %s) (slen %s))", h.S, tv.S, tv.S, tv.S), sStr}, "str")
		e.assume(st, T{fmt.Sprintf("(= (str.len %s) (slen %s))", res.S, tv.S), sBool})
		return res
	case fs == sInt && ts == sStr:
		// string(rune)
		e.declFun("rune_str", "(Int) String")
		return T{app("rune_str", tv), sStr}
	case fs == sInt && ts == sBV:
		if strings.HasPrefix(tv.S, "(") {
			e.unsupported("int→uint conversion of a non-constant")
		}
		e.unsupported("int→uint conversion")
	case fs == sInt && ts == sReal:
		return T{app("to_real", tv), sReal}
	}
	e.unsupported("conversion %s -> %s", from, to)
	return nil
}

func (e *Engine) typeAssert(fr *Frame, st *State, x *ssa.TypeAssert) {
	v := e.val(fr, x.X).(T)
	ok := e.name(e.typeTest(v, x.AssertedType), "isT")
	var payload Val
	if _, isIface := x.AssertedType.Underlying().(*types.Interface); isIface {
		if x.CommaOk {
			payload = e.name(tIte(ok, v, tIfNil), "ta")
		} else {
			payload = v
		}
	} else {
		payload = e.unbox(st, v, x.AssertedType)
		if x.CommaOk {
			if pt, isT := payload.(T); isT {
				payload = e.name(tIte(ok, pt, e.zero(x.AssertedType)), "ta")
			}
		}
	}
	if x.CommaOk {
		fr.vals[x] = Tuple{payload, ok}
		return
	}
	e.oblige(st, "safe-assert", e.exprLabel(fr.fn, x.Pos(), "typeassert"), ok, x.Pos())
	fr.vals[x] = payload
}

// phi: value chosen by incoming edge.  The engine does not keep per-edge conditions after
// merging, so it recomputes them from the predecessors' terminators.
func (e *Engine) phi(fr *Frame, st *State, x *ssa.Phi, _ *[]T, _ *[]Val) {
	b := x.Block()
	var res Val
	// Evaluate as nested ite on the condition that control came through pred i.
	// For naive-form && / ||, preds are If blocks whose condition registers are available.
	type alt struct {
		cond T
		v    Val
	}
	var alts []alt
	for i, p := range b.Preds {
		c := e.edgeCond(fr, p, b)
		if c.S == "false" {
			continue
		}
		alts = append(alts, alt{c, e.val(fr, x.Edges[i])})
	}
	if len(alts) == 0 {
		e.unsupported("phi with no executed predecessor")
	}
	res = alts[len(alts)-1].v
	for i := len(alts) - 2; i >= 0; i-- {
		a, ok1 := alts[i].v.(T)
		r, ok2 := res.(T)
		if !ok1 || !ok2 {
			e.unsupported("phi over non-term values")
		}
		res = tIte(alts[i].cond, a, r)
	}
	if t, ok := res.(T); ok {
		res = e.name(t, "phi")
	}
	fr.vals[x] = res
}

// edgeCond is the condition under which control flows from p to b, given that p executed,
// conjoined with p's own path condition recorded at execution time.
func (e *Engine) edgeCond(fr *Frame, p, b *ssa.BasicBlock) T {
	pc, ok := fr.blockPC[p]
	if !ok {
		return tFalse
	}
	if n := len(p.Instrs); n > 0 {
		if iff, ok := p.Instrs[n-1].(*ssa.If); ok {
			c := e.val(fr, iff.Cond).(T)
			if p.Succs[0] == b && p.Succs[1] != b {
				return tAnd(pc, c)
			}
			if p.Succs[1] == b && p.Succs[0] != b {
				return tAnd(pc, tNot(c))
			}
		}
	}
	return pc
}

// String order is an uninterpreted strict total order (str_lt, axiomatised in the prelude):
// the solvers' native lexicographic order is complete but far too expensive once sortedness
// facts are quantified (measured: 80 000 sequence axioms on one Pending obligation).
func strLt(a, b T) T { return T{app("str_lt", a, b), sBool} }
func strLe(a, b T) T { return T{fmt.Sprintf("(or (= %s %s) (str_lt %s %s))", a.S, b.S, a.S, b.S), sBool} }
