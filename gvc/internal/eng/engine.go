package eng

import (
	"os"
	"fmt"
	"go/token"
	"go/types"
	"sort"
	"strings"

	"golang.org/x/tools/go/ssa"
)

// Obligation is one proof obligation: under the script prefix lines[:At], PC ⇒ Goal.
type Obligation struct {
	Name     string // stable name: <func>#<kind>:<label>
	Kind     string
	Func     string
	Pos      token.Position
	PC, Goal string
	At       int
	Instance int
	// path slice: assertions emitted for states that are not ancestors of the obligation's
	// state are left out of its query (they are guarded by path conditions that are false
	// here, but their quantifiers would still be instantiated)
	segs    map[int32]bool
	lineSeg *[]int32
	// filled by the solver
	Status string // unsat (discharged) | sat | unknown | timeout | error
	Solver string
	Millis int64
	Model  string
}

// Engine generates verification conditions for one function at a time.
type Engine struct {
	P *Program

	lines       []string
	lineSeg     []int32 // per line: 0 = always kept, otherwise the segment that emitted it
	curSeg      int32
	segSeq      int32
	nfresh      int
	typeKeys    map[string]string
	structSorts map[string]string
	structInfo  map[string]*types.Struct
	typeIDs     map[string]int
	typeList    []types.Type
	declared    map[string]bool
	heapSort    map[string]string // heap name -> sort
	heapInit    map[string]bool   // initial-heap axioms emitted
	fldKinds    map[string]int

	Obls        []*Obligation
	instCount   map[string]int
	dry         int // >0: discard everything (loop modified-set discovery)
	callPreTime string // clock before the call whose frame is being applied
	freshSince  string // clock GvcFresh is relative to while a callee's post-condition is evaluated at a call site
	noOblig     int // >0: evaluate without emitting obligations (spec evaluation)
	nGlobals    int
	noForallAlt int
	forceName   bool
	defLine     bool
	constArrs   map[string]string
	inlineTerms int // >0: do not name intermediate values (inside quantifier bodies)
	boundVars   []T

	Assumptions map[string]bool
	Notes       []string
	top         *ssa.Function
	topContract *Contract
	frameSeq    int
	epochSeq    int
	cur         *Frame
	sentinels   []string
	globalConst map[*ssa.Global]T
	immutable   map[*ssa.Global]int // 0 unknown, 1 immutable, 2 mutable
	allocIndex  map[*ssa.Function]map[string]*ssa.Alloc
	loopCache   map[*ssa.Function]*loopInfo
	uninterp    map[string]bool
	MaxInline   int
	collect     *loopFrame // store targets seen during a dry run
	readRec     map[string]bool // heap reads recorder (recursive spec function analysis)
	recInfo     map[*ssa.Function]*recInfo
	recBuilding map[*ssa.Function]*recInfo
	epochTime   map[int]string
	curInstr    ssa.Instruction
	altExistsParts map[string][]string // existential formula -> its index-shifted restatements
	altExists   map[string]string // existential formula -> equivalent disjunction with index-shifted variants (goal positions only)
	altForm     map[string]string // universally quantified formula -> equivalent conjunction with index-shifted variants
	altOnly     map[string][]string
	loopTimeCtx string // clock at entry of the loop whose clause is being evaluated
	letFrames   [][]letBind
	letOff      map[int]bool
	effMethods  map[string]bool
	effFuncTypes bool
	modPkg      string // package of the contract whose modifies clause is being interpreted
}

type letBind struct{ name, term string }

func (e *Engine) pushLets() { e.letFrames = append(e.letFrames, nil) }

// popLets wraps body in the let bindings collected since the matching pushLets.
func (e *Engine) popLets(body string) string {
	top := len(e.letFrames) - 1
	binds := e.letFrames[top]
	e.letFrames = e.letFrames[:top]
	for i := len(binds) - 1; i >= 0; i-- {
		body = fmt.Sprintf("(let ((%s %s)) %s)", binds[i].name, binds[i].term, body)
	}
	return body
}

// enrich rewrites universally quantified formulas that have an index-shifted variant into the
// (equivalent) conjunction of both, but only at positions where the formula acts as a
// hypothesis: positive positions when `s` is assumed (positive=true), negative positions when
// `s` is a goal to be refuted (positive=false).
func (e *Engine) enrich(s string, positive bool) string {
	if (len(e.altForm) == 0 || !strings.Contains(s, "(forall ")) && (len(e.altExistsParts) == 0 || !strings.Contains(s, "(exists ")) {
		return s
	}
	hit := false
	for k := range e.altForm {
		if strings.Contains(s, k) {
			hit = true
			break
		}
	}
	for k := range e.altExistsParts {
		if hit {
			break
		}
		if strings.Contains(s, k) {
			hit = true
		}
	}
	if !hit {
		return s
	}
	tree := parseSx(s)
	if tree == nil {
		return s
	}
	pol := 1
	if !positive {
		pol = -1
	}
	return e.enrichSx(tree, pol).String()
}

// enrichSx: pol = 1 hypothesis position, -1 goal position, 0 both (under =, ite conditions).
func (e *Engine) enrichSx(n *sx, pol int) *sx {
	if !n.isL || len(n.list) == 0 {
		return n
	}
	mapAll := func(from int, p int) *sx {
		out := &sx{isL: true, list: append([]*sx{}, n.list[:from]...)}
		for _, c := range n.list[from:] {
			out.list = append(out.list, e.enrichSx(c, p))
		}
		return out
	}
	switch n.head() {
	case "not":
		return mapAll(1, -pol)
	case "=>":
		out := &sx{isL: true, list: []*sx{n.list[0]}}
		for i, c := range n.list[1:] {
			if i == len(n.list)-2 {
				out.list = append(out.list, e.enrichSx(c, pol))
			} else {
				out.list = append(out.list, e.enrichSx(c, -pol))
			}
		}
		return out
	case "and", "or":
		return mapAll(1, pol)
	case "ite":
		if len(n.list) == 4 {
			return &sx{isL: true, list: []*sx{n.list[0], e.enrichSx(n.list[1], 0), e.enrichSx(n.list[2], pol), e.enrichSx(n.list[3], pol)}}
		}
	case "=", "distinct", "xor":
		return mapAll(1, 0)
	case "forall":
		if pol >= 0 && e.noForallAlt == 0 {
			if alt, ok := e.altForm[n.String()]; ok {
				return &sx{atom: alt}
			}
		}
		if len(n.list) == 3 {
			return &sx{isL: true, list: []*sx{n.list[0], n.list[1], e.enrichSx(n.list[2], pol)}}
		}
	case "exists":
		if parts, ok := e.altExistsParts[n.String()]; ok && len(n.list) == 3 {
			// the index-shifted restatements: alternatives where the formula is to be proved
			// (or of unknown polarity), all asserted where it is assumed
			if pol > 0 {
				// assumed: one skolem witness, in the form the contract wrote it
				return &sx{isL: true, list: []*sx{n.list[0], n.list[1], e.enrichSx(n.list[2], pol)}}
			}
			out := &sx{isL: true, list: []*sx{{atom: "or"}}}
			out.list = append(out.list, &sx{isL: true, list: []*sx{n.list[0], n.list[1], e.enrichSx(n.list[2], pol)}})
			for _, ptxt := range parts {
				pt := parseSx(ptxt)
				if pt == nil || !pt.isL || len(pt.list) != 3 {
					continue
				}
				out.list = append(out.list, &sx{isL: true, list: []*sx{pt.list[0], pt.list[1], e.enrichSx(pt.list[2], pol)}})
			}
			return out
		}
		if len(n.list) == 3 {
			return &sx{isL: true, list: []*sx{n.list[0], n.list[1], e.enrichSx(n.list[2], pol)}}
		}
	case "!":
		if len(n.list) >= 2 {
			return &sx{isL: true, list: append([]*sx{n.list[0], e.enrichSx(n.list[1], pol)}, n.list[2:]...)}
		}
	}
	return n
}


// recInfo describes the SMT definition of a recursive spec function.
type recInfo struct {
	name   string
	heaps  []string // heap names it reads, in argument order
	sorts  []string
	result string
	fuel      bool // the SMT function takes a leading Fuel argument
	selfCalls int
}

// loopFrame records which objects a loop body writes, per heap.
type loopFrame struct {
	bases map[string][]T
	wild  map[string]bool
}

func (e *Engine) recStore(st *State, heap string, base T) { e.recStoreIf(st, heap, base, tTrue) }

// recStoreIf: the write happens only when cond holds.
func (e *Engine) recStoreIf(st *State, heap string, base T, cond T) {
	if e.collect != nil {
		e.collect.bases[heap] = append(e.collect.bases[heap], base)
	}
	if e.dry > 0 || e.noOblig > 0 {
		return
	}
	// conditional loop frames: a write inside a loop whose frame was assumed for old objects
	// must target an object allocated by this function (or one of the loop-invariant bases).
	for f := e.cur; f != nil; f = f.caller {
		for head, lf := range f.condFrames {
			bases, ok := lf[heap]
			if !ok || f.curBlock == nil || !e.loops(f.fn).body[head][f.curBlock] {
				continue
			}
			if strings.HasPrefix(base.S, "new_") {
				continue
			}
			goal := fmt.Sprintf("(> (newid %s) 0)", base.S)
			if since, ok := f.condSince[head]; ok {
				goal = fmt.Sprintf("(>= (newid %s) %s)", base.S, since)
			}
			for _, b := range bases {
				if strings.HasPrefix(b, "ELEMS:") != (base.Sort == "ELEMS") {
					continue
				}
				goal = fmt.Sprintf("(or %s (= %s %s))", goal, base.S, strings.TrimPrefix(b, "ELEMS:"))
			}
			e.oblige(st, "loop-frame", fmt.Sprintf("loop%d:%s", e.loops(f.fn).ordinal[head], heap), tImp(cond, T{goal, sBool}), token.NoPos)
		}
	}
}

func (e *Engine) recWild(heap string) {
	if e.collect == nil {
		return
	}
	e.collect.wild[heap] = true
}

type engineError struct{ msg string }

func (e *Engine) unsupported(format string, args ...interface{}) {
	msg := fmt.Sprintf(format, args...)
	if e.curInstr != nil {
		pos := ""
		if e.curInstr.Pos().IsValid() {
			pos = " at " + shortPath(e.P.Fset.Position(e.curInstr.Pos()).String())
		}
		fn := ""
		if e.curInstr.Parent() != nil {
			fn = " in " + e.curInstr.Parent().Name()
		}
		msg += fmt.Sprintf(" [instruction %q%s%s]", e.curInstr.String(), fn, pos)
	}
	panic(engineError{msg})
}

// NewEngine creates an engine for program p.
func NewEngine(p *Program) *Engine {
	e := &Engine{P: p,
		typeKeys: map[string]string{}, structSorts: map[string]string{}, structInfo: map[string]*types.Struct{},
		typeIDs: map[string]int{}, declared: map[string]bool{}, heapSort: map[string]string{}, heapInit: map[string]bool{},
		fldKinds: map[string]int{}, instCount: map[string]int{}, Assumptions: map[string]bool{},
		globalConst: map[*ssa.Global]T{}, immutable: map[*ssa.Global]int{},
		allocIndex: map[*ssa.Function]map[string]*ssa.Alloc{}, loopCache: map[*ssa.Function]*loopInfo{}, uninterp: map[string]bool{},
		recInfo: map[*ssa.Function]*recInfo{}, recBuilding: map[*ssa.Function]*recInfo{}, altForm: map[string]string{}, altExists: map[string]string{}, altExistsParts: map[string][]string{}, altOnly: map[string][]string{}, letOff: map[int]bool{},
		MaxInline: 14,
	}
	e.lines = append(e.lines, smtPrelude)
	e.lineSeg = append(e.lineSeg, 0)
	return e
}

const smtPrelude = `(set-option :produce-models true)
(set-logic ALL)
(declare-sort Ref 0)
(declare-sort Func 0)
(declare-const nil Ref)
(declare-const nil_func Func)
(declare-fun newid (Ref) Int)
(declare-fun rkind (Ref) Int)
(assert (= (newid nil) 0))
(assert (= (rkind nil) 0))
(declare-datatypes ((Slice 0)) (((mk_slice (sbase Ref) (soff Int) (slen Int) (scap Int)))))
(define-fun nil_slice () Slice (mk_slice nil 0 0 0))
(define-fun wf_slice ((s Slice)) Bool (and (<= 0 (soff s)) (<= 0 (slen s)) (<= (slen s) (scap s)) (=> (= (sbase s) nil) (= (scap s) 0))))
(declare-datatypes ((Iface 0)) (((if_nil) (if_ref (ityp_r Int) (iref Ref)) (if_str (ityp_s Int) (istr String)) (if_int (ityp_i Int) (iint Int)) (if_bool (ityp_b Int) (ibool Bool)) (if_bv (ityp_v Int) (ibv (_ BitVec 64))) (if_slice (ityp_l Int) (islice Slice)) (if_func (ityp_f Int) (ifunc Func)))))
(define-fun dtyp ((x Iface)) Int (ite ((_ is if_ref) x) (ityp_r x) (ite ((_ is if_str) x) (ityp_s x) (ite ((_ is if_int) x) (ityp_i x) (ite ((_ is if_bool) x) (ityp_b x) (ite ((_ is if_bv) x) (ityp_v x) (ite ((_ is if_slice) x) (ityp_l x) (ite ((_ is if_func) x) (ityp_f x) 0))))))))
(declare-datatypes ((Fuel 0)) (((FZ) (FS (fpred Fuel)))))
(declare-fun eref (Ref Int) Ref)
(declare-fun ebase (Ref) Ref)
(declare-fun eidx (Ref) Int)
(assert (forall ((b Ref) (i Int)) (! (and (= (ebase (eref b i)) b) (= (eidx (eref b i)) i) (= (rkind (eref b i)) 1) (= (newid (eref b i)) (newid b))) :pattern ((eref b i)))))
(declare-fun err_is_u (Iface Iface) Bool)
(declare-fun str_rank (String) Real)
(declare-fun str_unrank (Real) String)
(assert (forall ((a String)) (! (= (str_unrank (str_rank a)) a) :pattern ((str_rank a)))))
(define-fun str_lt ((a String) (b String)) Bool (< (str_rank a) (str_rank b)))
`

func (e *Engine) emit(line string) {
	if e.dry > 0 || e.inlineTerms > 0 {
		// inside a quantifier body nothing can be asserted globally (bound variables would
		// escape); dropping a fact only weakens what is assumed
		return
	}
	line = simplifyAssert(line)
	e.lines = append(e.lines, line)
	seg := e.curSeg
	if !strings.HasPrefix(line, "(assert") || e.defLine {
		seg = 0
	}
	e.lineSeg = append(e.lineSeg, seg)
}

var noSimp = os.Getenv("GVC_NOSIMP") != ""
var simpLog *os.File

// simplifyAssert applies the contextual Boolean simplification to an (assert F) line.
func simplifyAssert(line string) string {
	if noSimp || !strings.HasPrefix(line, "(assert ") || !strings.HasSuffix(line, ")") || len(line) < 120 {
		return line
	}
	f := line[len("(assert ") : len(line)-1]
	g := ctxSimplify(f)
	if g == f {
		return line
	}
	if d := os.Getenv("GVC_SIMP_LOG"); d != "" {
		if simpLog == nil {
			simpLog, _ = os.Create(d)
		}
		if simpLog != nil {
			fmt.Fprintf(simpLog, "%s\n%s\n", f, g)
		}
	}
	return "(assert " + g + ")"
}

// emitDecl emits a declaration even in dry mode (declarations are global and harmless).
func (e *Engine) emitDecl(line string) {
	line = simplifyAssert(line)
	e.lines = append(e.lines, line)
	e.lineSeg = append(e.lineSeg, 0)
}

// useState makes st the state the following assertions belong to: they are tagged with a
// segment recorded in st (and inherited by every state derived from it).
func (e *Engine) useState(st *State) {
	if st == nil || e.dry > 0 || e.inlineTerms > 0 {
		return
	}
	if st.segs == nil {
		st.segs = map[int32]bool{}
	}
	if e.curSeg != 0 && st.segs[e.curSeg] {
		return
	}
	e.segSeq++
	e.curSeg = e.segSeq
	st.segs[e.curSeg] = true
}

func (e *Engine) freshName(hint string) string {
	e.nfresh++
	hint = strings.Map(func(r rune) rune {
		if r >= 'a' && r <= 'z' || r >= 'A' && r <= 'Z' || r >= '0' && r <= '9' || r == '_' {
			return r
		}
		return -1
	}, hint)
	if hint == "" {
		hint = "v"
	}
	return fmt.Sprintf("%s!%d", hint, e.nfresh)
}

// fresh declares a new unconstrained constant.
func (e *Engine) fresh(sort, hint string) T {
	if e.inlineTerms > 0 {
		// inside a quantifier body an unknown value may depend on the bound variables:
		// it becomes an application of a fresh function to them
		if len(e.boundVars) == 0 {
			e.unsupported("fresh value (%s) inside a term-only context", hint)
		}
		n := e.freshName(hint)
		var sorts, args []string
		for _, bv := range e.boundVars {
			sorts = append(sorts, bv.Sort)
			args = append(args, bv.S)
		}
		e.emitDecl(fmt.Sprintf("(declare-fun %s (%s) %s)", n, strings.Join(sorts, " "), sort))
		return T{"(" + n + " " + strings.Join(args, " ") + ")", sort}
	}
	n := e.freshName(hint)
	e.emitDecl(fmt.Sprintf("(declare-const %s %s)", n, sort))
	return T{n, sort}
}

// nameAlways names a term whatever its size (conditional terms that end up inside triggers).
func (e *Engine) nameAlways(t T, hint string) T {
	if e.inlineTerms > 0 || !strings.HasPrefix(t.S, "(") || os.Getenv("GVC_NONAMEALWAYS") != "" {
		return t
	}
	e.forceName = true
	defer func() { e.forceName = false }()
	return e.name(t, hint)
}

// name gives a term a name so that later terms stay small.
func (e *Engine) name(t T, hint string) T {
	if len(t.S) < 24 && !e.forceName {
		return t
	}
	if e.inlineTerms > 0 {
		// inside a quantifier / recursive definition body: share the term through a let
		if len(e.letFrames) == 0 || len(t.S) < 60 || e.letOff[len(e.letFrames)-1] {
			return t
		}
		if t.Sort == sBool && (strings.Contains(t.S, "(forall ") || strings.Contains(t.S, "(exists ")) {
			return t
		}
		n := e.freshName("l" + hint)
		top := len(e.letFrames) - 1
		e.letFrames[top] = append(e.letFrames[top], letBind{n, t.S})
		return T{n, t.Sort}
	}
	if t.Sort == sBool && (strings.Contains(t.S, "(forall ") || strings.Contains(t.S, "(exists ")) {
		return t // quantified formulas stay visible (polarity-aware enrichment, triggers)
	}
	n := e.freshName(hint)
	if t.Sort == sBool {
		// boolean names stay macros: they are path conditions, never trigger material
		e.emit(fmt.Sprintf("(define-fun %s () %s %s)", n, t.Sort, t.S))
		return T{n, t.Sort}
	}
	e.emit(fmt.Sprintf("(declare-const %s %s)", n, t.Sort))
	e.defLine = true // definitions of fresh names are kept in every slice
	if conds, vals, ok := iteChain(t.S); ok && e.forceName {
		// a conditional value is defined branch by branch: an equation n = (ite …) would be
		// eliminated by the solvers' preprocessing, and the ite would then show up inside the
		// triggers of every quantifier that mentions n (triggers with ite are discarded)
		neg := ""
		for i, v := range vals {
			guard := ""
			if i < len(conds) {
				guard = neg + " " + conds[i]
			} else {
				guard = neg
			}
			guard = strings.TrimSpace(guard)
			if guard == "" {
				e.emit(fmt.Sprintf("(assert (= %s %s))", n, v))
			} else {
				e.emit(fmt.Sprintf("(assert (=> (and %s) (= %s %s)))", guard, n, v))
			}
			if i < len(conds) {
				neg += " (not " + conds[i] + ")"
			}
		}
	} else {
		e.emit(fmt.Sprintf("(assert (= %s %s))", n, t.S))
	}
	e.defLine = false
	return T{n, t.Sort}
}

// iteChain splits (ite c1 v1 (ite c2 v2 … vn)) into its conditions and values.
func iteChain(s string) (conds, vals []string, ok bool) {
	for strings.HasPrefix(s, "(ite ") {
		tree := parseSx(s)
		if tree == nil || len(tree.list) != 4 {
			break
		}
		conds = append(conds, tree.list[1].String())
		vals = append(vals, tree.list[2].String())
		s = tree.list[3].String()
		if len(conds) > 64 {
			return nil, nil, false
		}
	}
	if len(conds) == 0 {
		return nil, nil, false
	}
	vals = append(vals, s)
	return conds, vals, true
}

func (e *Engine) declFun(name, sig string) {
	if e.declared[name] {
		return
	}
	e.declared[name] = true
	e.emitDecl(fmt.Sprintf("(declare-fun %s %s)", name, sig))
}

// assume adds pc ⇒ fact to the script.
func (e *Engine) assume(st *State, fact T) {
	if fact.S == "true" {
		return
	}
	e.useState(st)
	if e.inlineTerms > 0 {
		return // facts about bound variables cannot be asserted globally
	}
	e.emit(fmt.Sprintf("(assert %s)", e.enrich(tImp(st.pc, fact).S, true)))
}

func (e *Engine) note(format string, args ...interface{}) {
	e.Notes = append(e.Notes, fmt.Sprintf(format, args...))
}

func (e *Engine) trust(s string) { e.Assumptions[s] = true }

// oblige records an obligation pc ⇒ goal.
func (e *Engine) oblige(st *State, kind, label string, goal T, pos token.Pos) {
	if e.dry > 0 || e.noOblig > 0 {
		return
	}
	if goal.S == "true" || st.pc.S == "false" {
		return
	}
	fn := "?"
	if e.top != nil {
		fn = e.topName()
	}
	e.useState(st)
	name := fmt.Sprintf("%s#%s:%s", fn, kind, label)
	o := &Obligation{Name: name, Kind: kind, Func: fn, PC: e.enrich(st.pc.S, true), Goal: e.enrich(goal.S, false), At: len(e.lines), Instance: e.instCount[name]}
	if !noSimp {
		o.Goal = ctxSimplify(o.Goal)
	}
	if pos.IsValid() {
		o.Pos = e.P.Fset.Position(pos)
	}
	e.instCount[name]++
	o.segs, o.lineSeg = copySegs(st.segs), &e.lineSeg
	e.Obls = append(e.Obls, o)
	// assert-then-assume: what has been checked may be used by what follows.  Obligations that
	// end a state's life (the loop takes over from a havocked state, the function returns) have
	// nothing following them; assuming their (usually quantified) goals only feeds the solvers
	// instantiation work about values nobody looks at again.
	switch kind {
	case "inv-init", "inv-pres", "post", "frame", "decreases":
		if os.Getenv("GVC_KEEPASSUME") == "" {
			return
		}
	}
	e.emit(fmt.Sprintf("(assert %s)", e.enrich(tImp(st.pc, goal).S, true)))
}

// adoptSegs: values computed in state o flow into s, so s depends on what o depends on.
func (s *State) adoptSegs(o *State) {
	if o == nil || o.segs == nil {
		return
	}
	if s.segs == nil {
		s.segs = map[int32]bool{}
	}
	for k := range o.segs {
		s.segs[k] = true
	}
}

func copySegs(m map[int32]bool) map[int32]bool {
	out := make(map[int32]bool, len(m))
	for k := range m {
		out[k] = true
	}
	return out
}

// topName is the display name of the function under verification (with its contract view).
func (e *Engine) topName() string {
	n := funcDisplayName(e.top)
	if e.topContract != nil && e.topContract.View != "" {
		n += "@" + e.topContract.View
	}
	return n
}

func funcDisplayName(f *ssa.Function) string {
	if f.Pkg == nil {
		return f.String()
	}
	s := f.RelString(f.Pkg.Pkg)
	return f.Pkg.Pkg.Name() + "." + s
}

// ---------------------------------------------------------------------------------------------
// State

type cellKey struct {
	frame int
	alloc *ssa.Alloc
}

type deferEntry struct {
	instr *ssa.Defer
	guard T
	fn    Val
	args  []Val
	recv  Val
	order int
}

// State is the symbolic state at a program point.
type State struct {
	pc     T
	cells  map[cellKey]Val
	heaps  map[string]T
	epoch  int
	defers map[int][]*deferEntry
	nonnil map[string]bool // terms already shown (or assumed) non-nil on every path to here
	// allocation clock: every object allocated by the function gets newid = the clock value at
	// its allocation (objects that existed at entry have newid 0); tbase + toff is the next value.
	tbase string
	toff  int
	segs  map[int32]bool // segments of emitted assertions this state depends on
}

func (s *State) time() T {
	if s.tbase == "" {
		return tInt(int64(s.toff))
	}
	if s.toff == 0 {
		return T{s.tbase, sInt}
	}
	return T{fmt.Sprintf("(+ %s %d)", s.tbase, s.toff), sInt}
}

func (s *State) clone() *State {
	n := &State{pc: s.pc, epoch: s.epoch, tbase: s.tbase, toff: s.toff, cells: make(map[cellKey]Val, len(s.cells)), heaps: make(map[string]T, len(s.heaps)), defers: map[int][]*deferEntry{}}
	for k, v := range s.cells {
		n.cells[k] = v
	}
	for k, v := range s.heaps {
		n.heaps[k] = v
	}
	for k, v := range s.defers {
		n.defers[k] = append([]*deferEntry(nil), v...)
	}
	if s.nonnil != nil {
		n.nonnil = make(map[string]bool, len(s.nonnil))
		for k := range s.nonnil {
			n.nonnil[k] = true
		}
	}
	if s.segs != nil {
		n.segs = make(map[int32]bool, len(s.segs)+1)
		for k := range s.segs {
			n.segs[k] = true
		}
	}
	return n
}

func (s *State) assign(o *State) {
	s.pc, s.cells, s.heaps, s.epoch, s.defers, s.nonnil = o.pc, o.cells, o.heaps, o.epoch, o.defers, o.nonnil
	s.tbase, s.toff = o.tbase, o.toff
	s.segs = o.segs
}

// heap returns the current term of heap `name` (declaring its epoch default on demand).
func (e *Engine) heap(st *State, name, sort string) T {
	if e.readRec != nil {
		e.readRec[name] = true
	}
	if t, ok := st.heaps[name]; ok {
		return t
	}
	if old, ok := e.heapSort[name]; ok && old != sort {
		e.unsupported("heap %s used with sorts %s and %s", name, old, sort)
	}
	e.heapSort[name] = sort
	c := fmt.Sprintf("%s@%d", name, st.epoch)
	if !e.declared[c] {
		e.declared[c] = true
		e.emitDecl(fmt.Sprintf("(declare-const %s %s)", c, sort))
		if st.epoch == 0 {
			e.initialHeapAxioms(c, sort)
		} else if tm, ok := e.epochTime[st.epoch]; ok && e.dry == 0 {
			tmp := &State{pc: tTrue, tbase: tm}
			e.heapOlderThanNow(tmp, T{c, sort})
			e.heapWf(tmp, T{c, sort})
		}
	}
	return T{c, sort}
}

// initialHeapAxioms: everything stored in the entry heap existed at entry (newid = 0).
func (e *Engine) initialHeapAxioms(c, sort string) {
	if os.Getenv("GVC_INITGUARD") == "" {
		e.initialHeapAxiomsUnguarded(c, sort)
		return
	}
	if !strings.HasPrefix(sort, "(Array Ref ") {
		switch sort {
		case sRef:
			e.emitDecl(fmt.Sprintf("(assert (= (newid %s) 0))", c))
		case sSlice:
			e.emitDecl(fmt.Sprintf("(assert (and (= (newid (sbase %s)) 0) (wf_slice %s)))", c, c))
		}
		return
	}
	_, v := arrayKV(sort)
	switch v {
	case sRef:
		e.emitDecl(fmt.Sprintf("(assert (forall ((x Ref)) (! (=> (= (newid x) 0) (= (newid (select %s x)) 0)) :pattern ((select %s x)))))", c, c))
	case sSlice:
		e.emitDecl(fmt.Sprintf("(assert (forall ((x Ref)) (! (and (=> (= (newid x) 0) (= (newid (sbase (select %s x))) 0)) (wf_slice (select %s x))) %s)))", c, c, slicePatterns("(select "+c+" x)")))
	case sIface:
		e.emitDecl(fmt.Sprintf("(assert (forall ((x Ref)) (! (=> (and (= (newid x) 0) ((_ is if_ref) (select %s x))) (= (newid (iref (select %s x))) 0)) :pattern ((select %s x)))))", c, c, c))
	case "(Array Int Ref)":
		e.emitDecl(fmt.Sprintf("(assert (forall ((x Ref) (i Int)) (! (=> (= (newid x) 0) (= (newid (select (select %s x) i)) 0)) :pattern ((select (select %s x) i)))))", c, c))
	case "(Array Int Slice)":
		e.emitDecl(fmt.Sprintf("(assert (forall ((x Ref) (i Int)) (! (and (=> (= (newid x) 0) (= (newid (sbase (select (select %s x) i))) 0)) (wf_slice (select (select %s x) i))) %s)))", c, c, slicePatterns("(select (select "+c+" x) i)")))
	case "(Array Int Iface)":
		e.emitDecl(fmt.Sprintf("(assert (forall ((x Ref) (i Int)) (! (=> (and (= (newid x) 0) ((_ is if_ref) (select (select %s x) i))) (= (newid (iref (select (select %s x) i))) 0)) :pattern ((select (select %s x) i)))))", c, c, c))
	}
}

// initialHeapAxiomsUnguarded: the same for every reference, allocated or not (the form used
// before the guard was introduced; kept for comparison runs).
func (e *Engine) initialHeapAxiomsUnguarded(c, sort string) {
	if !strings.HasPrefix(sort, "(Array Ref ") {
		switch sort {
		case sRef:
			e.emitDecl(fmt.Sprintf("(assert (= (newid %s) 0))", c))
		case sSlice:
			e.emitDecl(fmt.Sprintf("(assert (and (= (newid (sbase %s)) 0) (wf_slice %s)))", c, c))
		}
		return
	}
	_, v := arrayKV(sort)
	switch v {
	case sRef:
		e.emitDecl(fmt.Sprintf("(assert (forall ((x Ref)) (! (= (newid (select %s x)) 0) :pattern ((select %s x)))))", c, c))
	case sSlice:
		e.emitDecl(fmt.Sprintf("(assert (forall ((x Ref)) (! (and (= (newid (sbase (select %s x))) 0) (wf_slice (select %s x))) %s)))", c, c, slicePatterns("(select "+c+" x)")))
	case sIface:
		e.emitDecl(fmt.Sprintf("(assert (forall ((x Ref)) (! (=> ((_ is if_ref) (select %s x)) (= (newid (iref (select %s x))) 0)) :pattern ((select %s x)))))", c, c, c))
	case "(Array Int Ref)":
		e.emitDecl(fmt.Sprintf("(assert (forall ((x Ref) (i Int)) (! (= (newid (select (select %s x) i)) 0) :pattern ((select (select %s x) i)))))", c, c))
	case "(Array Int Slice)":
		e.emitDecl(fmt.Sprintf("(assert (forall ((x Ref) (i Int)) (! (and (= (newid (sbase (select (select %s x) i))) 0) (wf_slice (select (select %s x) i))) %s)))", c, c, slicePatterns("(select (select "+c+" x) i)")))
	case "(Array Int Iface)":
		e.emitDecl(fmt.Sprintf("(assert (forall ((x Ref) (i Int)) (! (=> ((_ is if_ref) (select (select %s x) i)) (= (newid (iref (select (select %s x) i))) 0)) :pattern ((select (select %s x) i)))))", c, c, c))
	}
}

func (e *Engine) setHeap(st *State, name string, t T) {
	e.heapSort[name] = t.Sort
	st.heaps[name] = e.name(t, name)
}

// havocAll starts a new epoch: every heap is unknown.
func (e *Engine) havocAll(st *State) {
	if e.collect != nil {
		e.collect.wild["*"] = true
	}
	e.epochSeq++
	st.epoch = e.epochSeq
	st.heaps = map[string]T{}
	e.bumpTime(st)
	if e.epochTime == nil {
		e.epochTime = map[int]string{}
	}
	e.epochTime[st.epoch] = st.time().S
}

// bumpTime: an unknown number of allocations may have happened (call, loop iterations).
func (e *Engine) bumpTime(st *State) {
	old := st.time()
	e.nfresh++
	n := fmt.Sprintf("t!%d", e.nfresh)
	e.emitDecl(fmt.Sprintf("(declare-const %s Int)", n))
	e.emit(fmt.Sprintf("(assert (>= %s %s))", n, old.S))
	st.tbase, st.toff = n, 0
}

// olderThanNow: every reference inside value v (of Go type t) denotes an object that exists now.
func (e *Engine) olderThanNow(st *State, v T) T {
	now := st.time().S
	switch v.Sort {
	case sRef:
		return T{fmt.Sprintf("(< (newid %s) %s)", v.S, now), sBool}
	case sSlice:
		return T{fmt.Sprintf("(< (newid (sbase %s)) %s)", v.S, now), sBool}
	case sIface:
		return T{fmt.Sprintf("(=> ((_ is if_ref) %s) (< (newid (iref %s)) %s))", v.S, v.S, now), sBool}
	}
	return tTrue
}

// heapOlderThanNow: the same for the contents of a havocked heap.
func (e *Engine) heapOlderThanNow(st *State, h T) {
	now := st.time().S
	if !strings.HasPrefix(h.Sort, "(Array Ref ") {
		e.assume(st, e.olderThanNow(st, h))
		return
	}
	_, v := arrayKV(h.Sort)
	x := "(select " + h.S + " x)"
	xi := "(select (select " + h.S + " x) i)"
	switch v {
	case sRef:
		e.emit(fmt.Sprintf("(assert (forall ((x Ref)) (! (< (newid %s) %s) :pattern (%s))))", x, now, x))
	case sSlice:
		e.emit(fmt.Sprintf("(assert (forall ((x Ref)) (! (< (newid (sbase %s)) %s) :pattern ((sbase %s)))))", x, now, x))
	case sIface:
		e.emit(fmt.Sprintf("(assert (forall ((x Ref)) (! (=> ((_ is if_ref) %s) (< (newid (iref %s)) %s)) :pattern (%s))))", x, x, now, x))
	case "(Array Int Ref)":
		e.emit(fmt.Sprintf("(assert (forall ((x Ref) (i Int)) (! (< (newid %s) %s) :pattern (%s))))", xi, now, xi))
	case "(Array Int Slice)":
		e.emit(fmt.Sprintf("(assert (forall ((x Ref) (i Int)) (! (< (newid (sbase %s)) %s) :pattern ((sbase %s)))))", xi, now, xi))
	case "(Array Int Iface)":
		e.emit(fmt.Sprintf("(assert (forall ((x Ref) (i Int)) (! (=> ((_ is if_ref) %s) (< (newid (iref %s)) %s)) :pattern (%s))))", xi, xi, now, xi))
	default:
		// map values (and element heaps keyed by another sort): (Array K Ref|Slice|Iface)
		if strings.HasPrefix(v, "(Array ") {
			if k, vv := arrayKV(v); k != "Int" {
				switch vv {
				case sRef:
					e.emit(fmt.Sprintf("(assert (forall ((x Ref) (i %s)) (! (< (newid %s) %s) :pattern (%s))))", k, xi, now, xi))
				case sSlice:
					e.emit(fmt.Sprintf("(assert (forall ((x Ref) (i %s)) (! (< (newid (sbase %s)) %s) :pattern ((sbase %s)))))", k, xi, now, xi))
				case sIface:
					e.emit(fmt.Sprintf("(assert (forall ((x Ref) (i %s)) (! (=> ((_ is if_ref) %s) (< (newid (iref %s)) %s)) :pattern (%s))))", k, xi, xi, now, xi))
				}
			}
		}
	}
}

// slicePatterns: facts about a slice read from a heap are instantiated when one of its
// components is mentioned, not for every read (slice-valued fields nobody looks into were a
// large share of the instantiations).
func slicePatterns(x string) string {
	if os.Getenv("GVC_OLDPAT") != "" {
		return ":pattern (" + x + ")"
	}
	return fmt.Sprintf(":pattern ((sbase %s)) :pattern ((slen %s)) :pattern ((soff %s)) :pattern ((scap %s))", x, x, x, x)
}

// ---------------------------------------------------------------------------------------------
// Frames

// Frame is one activation (the function under verification or an inlined callee).
type Frame struct {
	id       int
	fn       *ssa.Function
	vals     map[ssa.Value]Val
	caller   *Frame
	depth    int
	spec     bool   // evaluating a generated spec function
	oldState *State // for GvcOld
	binds    []Val
	tsubst   map[*types.TypeParam]types.Type
	contract *Contract
	entry    *State // state at entry (top frame: for frame conditions and old())
	params   []Val
	loopHead map[*ssa.BasicBlock]*State
	condFrames map[*ssa.BasicBlock]map[string][]string // loop head -> heap -> invariant bases (conditional frames)
	condSince  map[*ssa.BasicBlock]string              // loop head -> clock at loop entry when the loop is `freshwrites`
	loopTime   map[*ssa.BasicBlock]string              // loop head -> clock at loop entry
	curBlock *ssa.BasicBlock
	blockPC  map[*ssa.BasicBlock]T
	deferN   int
}

func (e *Engine) newFrame(fn *ssa.Function, caller *Frame) *Frame {
	e.frameSeq++
	f := &Frame{id: e.frameSeq, fn: fn, vals: map[ssa.Value]Val{}, caller: caller, loopHead: map[*ssa.BasicBlock]*State{}, blockPC: map[*ssa.BasicBlock]T{}, condFrames: map[*ssa.BasicBlock]map[string][]string{}, condSince: map[*ssa.BasicBlock]string{}, loopTime: map[*ssa.BasicBlock]string{}}
	if caller != nil {
		f.depth = caller.depth + 1
		f.spec = caller.spec
		f.oldState = caller.oldState
	}
	return f
}

// subst replaces type parameters by the type arguments of the innermost frame that binds
// them (generic spec functions evaluated for an instantiated callee).
func (e *Engine) subst(t types.Type) types.Type {
	if t == nil {
		return t
	}
	for f := e.cur; f != nil; f = f.caller {
		if f.tsubst != nil {
			t = substType(t, f.tsubst)
		}
	}
	return t
}

func substType(t types.Type, m map[*types.TypeParam]types.Type) types.Type {
	switch x := t.(type) {
	case *types.TypeParam:
		if r, ok := m[x]; ok {
			return r
		}
		// match by name and index (type parameters of generated spec functions are distinct objects)
		for tp, r := range m {
			if tp.Obj().Name() == x.Obj().Name() && tp.Index() == x.Index() {
				return r
			}
		}
		return t
	case *types.Pointer:
		return types.NewPointer(substType(x.Elem(), m))
	case *types.Slice:
		return types.NewSlice(substType(x.Elem(), m))
	case *types.Array:
		return types.NewArray(substType(x.Elem(), m), x.Len())
	case *types.Map:
		return types.NewMap(substType(x.Key(), m), substType(x.Elem(), m))
	case *types.Named:
		if x.TypeArgs() != nil && x.TypeArgs().Len() > 0 {
			var args []types.Type
			changed := false
			for i := 0; i < x.TypeArgs().Len(); i++ {
				a := substType(x.TypeArgs().At(i), m)
				if a != x.TypeArgs().At(i) {
					changed = true
				}
				args = append(args, a)
			}
			if changed {
				if inst, err := types.Instantiate(nil, x.Origin(), args, false); err == nil {
					return inst
				}
			}
		}
	}
	return t
}

// ---------------------------------------------------------------------------------------------
// Type ids (dynamic types of interface values)

func (e *Engine) typeID(t types.Type) int {
	k := types.TypeString(t, nil)
	if id, ok := e.typeIDs[k]; ok {
		return id
	}
	id := len(e.typeList) + 1
	e.typeIDs[k] = id
	e.typeList = append(e.typeList, t)
	return id
}

// makeIface boxes v (of static type t) into an interface value.
func (e *Engine) makeIface(st *State, v Val, t types.Type) T {
	t = e.subst(t)
	if _, ok := t.Underlying().(*types.Interface); ok {
		return v.(T)
	}
	id := tInt(int64(e.typeID(t)))
	if _, ok := isStruct(t); ok {
		// box: a fresh immutable object holding the value
		r := e.newObject(st, "box")
		e.storeStruct(st, r, t, v.(T))
		return T{app("if_ref", id, r), sIface}
	}
	tv, ok := v.(T)
	if !ok {
		switch pv := v.(type) {
		case *FuncV, *MergeV:
			return T{app("if_func", id, e.funcToTerm(pv)), sIface}
		case *FieldPtr, *ElemPtr, *CellPtr, *GlobalPtr:
			// interior pointer boxed into an interface (e.g. modifies clauses); keep engine-side
			e.unsupported("interior pointer in interface")
		}
		e.unsupported("boxing %T", v)
	}
	switch tv.Sort {
	case sRef:
		return T{app("if_ref", id, tv), sIface}
	case sStr:
		return T{app("if_str", id, tv), sIface}
	case sInt:
		return T{app("if_int", id, tv), sIface}
	case sBool:
		return T{app("if_bool", id, tv), sIface}
	case sBV:
		return T{app("if_bv", id, tv), sIface}
	case sSlice:
		return T{app("if_slice", id, tv), sIface}
	case sFunc:
		return T{app("if_func", id, tv), sIface}
	}
	// arrays etc: box through a pointee heap
	r := e.newObject(st, "box")
	e.storePointee(st, r, t, tv)
	return T{app("if_ref", id, r), sIface}
}

// unbox extracts the payload of interface value x as type t.
func (e *Engine) unbox(st *State, x T, t types.Type) Val {
	t = e.subst(t)
	if _, ok := isStruct(t); ok {
		return e.loadStruct(st, T{app("iref", x), sRef}, t)
	}
	switch s := e.sortOf(t); s {
	case sRef:
		return T{app("iref", x), sRef}
	case sStr:
		return T{app("istr", x), sStr}
	case sInt:
		return T{app("iint", x), sInt}
	case sBool:
		return T{app("ibool", x), sBool}
	case sBV:
		return T{app("ibv", x), sBV}
	case sSlice:
		return T{app("islice", x), sSlice}
	case sFunc:
		return T{app("ifunc", x), sFunc}
	default:
		return e.loadPointee(st, T{app("iref", x), sRef}, t)
	}
}

// typeTest returns the condition "dynamic type of x is / implements t".
func (e *Engine) typeTest(x T, t types.Type) T {
	t = e.subst(t)
	if it, ok := t.Underlying().(*types.Interface); ok {
		if it.NumMethods() == 0 {
			return tNot(tEq(x, tIfNil))
		}
		pred := "impl_" + e.typeKey(t)
		if !e.declared[pred] {
			e.declFun(pred, "(Int) Bool")
		}
		// facts for all registered concrete types
		e.implFacts(pred, t)
		return tAnd(tNot(tEq(x, tIfNil)), T{fmt.Sprintf("(%s (dtyp %s))", pred, x.S), sBool})
	}
	id := e.typeID(t)
	if os.Getenv("GVC_DTYPTEST") == "" {
		// Type identifiers are per Go type and a Go type is always boxed with the same constructor
		// (makeIface): the test names the constructor, so that a successful test also tells which
		// payload selector is meaningful (without it `x.(*T)` on a symbolic interface value could
		// be satisfied by a string-kinded value carrying *T's identifier, whose iref is junk).
		tester, sel := "if_ref", "ityp_r"
		if _, isS := isStruct(t); !isS {
			switch e.sortOf(t) {
			case sStr:
				tester, sel = "if_str", "ityp_s"
			case sInt:
				tester, sel = "if_int", "ityp_i"
			case sBool:
				tester, sel = "if_bool", "ityp_b"
			case sBV:
				tester, sel = "if_bv", "ityp_v"
			case sSlice:
				tester, sel = "if_slice", "ityp_l"
			case sFunc:
				tester, sel = "if_func", "ityp_f"
			}
		}
		return T{fmt.Sprintf("(and ((_ is %s) %s) (= (%s %s) %d))", tester, x.S, sel, x.S, id), sBool}
	}
	return T{fmt.Sprintf("(= (dtyp %s) %d)", x.S, id), sBool}
}

type implKey struct {
	pred string
	id   int
}

var implDone = map[*Engine]map[implKey]bool{}

func (e *Engine) implFacts(pred string, iface types.Type) {
	m := implDone[e]
	if m == nil {
		m = map[implKey]bool{}
		implDone[e] = m
	}
	it := iface.Underlying().(*types.Interface)
	for i, t := range e.typeList {
		k := implKey{pred, i + 1}
		if m[k] {
			continue
		}
		m[k] = true
		v := "false"
		if types.Implements(t, it) {
			v = "true"
		}
		e.emitDecl(fmt.Sprintf("(assert (= (%s %d) %s))", pred, i+1, v))
	}
}

// ---------------------------------------------------------------------------------------------
// Pointers and memory

// CellPtr is the address of a local variable that never escapes.
type CellPtr struct {
	key    cellKey
	path   []int        // field path into a struct-valued cell
	ptypes []types.Type // struct type at each step of path
}

// FieldPtr is the address of a non-struct field of a heap object.
type FieldPtr struct {
	base  T
	heap  string
	ftype types.Type
}

// ElemPtr is the address of a non-struct element of an array/slice backing store.
type ElemPtr struct {
	base  T // Ref of the backing store
	idx   T
	etype types.Type
}

// GlobalPtr is the address of a non-struct package-level variable.
type GlobalPtr struct {
	g *ssa.Global
}

// FuncV is a known function value (static function or closure).
type FuncV struct {
	fn    *ssa.Function
	binds []Val
	recv  Val // bound method receiver (method values), nil otherwise
}

// MergeV is a guarded choice between engine values that are not SMT terms.
type MergeV struct {
	guards []T
	vals   []Val
}

func (e *Engine) newObject(st *State, hint string) T {
	if e.inlineTerms > 0 {
		return e.fresh(sRef, "qnew_"+hint)
	}
	e.nfresh++
	n := fmt.Sprintf("new_%s!%d", hint, e.nfresh)
	e.emitDecl(fmt.Sprintf("(declare-const %s Ref)", n))
	e.emitDecl(fmt.Sprintf("(assert (= (rkind %s) 0))", n))
	e.emit(fmt.Sprintf("(assert (= (newid %s) %s))", n, st.time().S))
	st.toff++
	return T{n, sRef}
}

func (e *Engine) structKeyOf(t types.Type) (string, *types.Struct) {
	st := t.Underlying().(*types.Struct)
	return e.typeKey(t), st
}

func (e *Engine) fieldHeapName(skey string, st *types.Struct, i int) string {
	fn := st.Field(i).Name()
	if fn == "_" {
		fn = fmt.Sprintf("blank%d", i)
	}
	return "F_" + skey + "_" + fn
}

// fldRef is the reference of the by-value struct stored in field i of object r.
func (e *Engine) fldRef(r T, skey string, st *types.Struct, i int) T {
	fn := "fld_" + skey + "_" + st.Field(i).Name()
	if !e.declared[fn] {
		e.declared[fn] = true
		kind := len(e.fldKinds) + 2
		e.fldKinds[fn] = kind
		e.emitDecl(fmt.Sprintf("(declare-fun %s (Ref) Ref)", fn))
		e.emitDecl(fmt.Sprintf("(declare-fun %s_inv (Ref) Ref)", fn))
		e.emitDecl(fmt.Sprintf("(assert (forall ((r Ref)) (! (and (= (%s_inv (%s r)) r) (= (rkind (%s r)) %d) (= (newid (%s r)) (newid r))) :pattern ((%s r)))))", fn, fn, fn, kind, fn, fn))
	}
	return T{fmt.Sprintf("(%s %s)", fn, r.S), sRef}
}

func (e *Engine) loadStruct(st *State, r T, t types.Type) T {
	skey, s := e.structKeyOf(t)
	sort := e.sortOf(t)
	if s.NumFields() == 0 {
		return T{"mk_" + sort, sort}
	}
	var args []T
	for i := 0; i < s.NumFields(); i++ {
		ft := s.Field(i).Type()
		if _, ok := isStruct(ft); ok && !e.isIntrinsicStruct(ft) {
			args = append(args, e.loadStruct(st, e.fldRef(r, skey, s, i), ft))
			continue
		}
		h := e.heap(st, e.fieldHeapName(skey, s, i), arraySort(sRef, e.sortOf(ft)))
		args = append(args, tSel(h, r))
	}
	return T{app("mk_"+sort, args...), sort}
}

func (e *Engine) isIntrinsicStruct(t types.Type) bool {
	if n, ok := t.(*types.Named); ok {
		return n.Origin().Obj().Name() == "GvcArr"
	}
	return false
}

func (e *Engine) storeStruct(st *State, r T, t types.Type, v T) {
	skey, s := e.structKeyOf(t)
	sort := e.sortOf(t)
	for i := 0; i < s.NumFields(); i++ {
		ft := s.Field(i).Type()
		fv := T{fmt.Sprintf("(%s %s)", e.fieldSel(sort, s, i), v.S), e.sortOf(ft)}
		if _, ok := isStruct(ft); ok && !e.isIntrinsicStruct(ft) {
			e.storeStruct(st, e.fldRef(r, skey, s, i), ft, fv)
			continue
		}
		hn := e.fieldHeapName(skey, s, i)
		h := e.heap(st, hn, arraySort(sRef, e.sortOf(ft)))
		e.recStore(st, hn, r)
		e.setHeap(st, hn, tStore(h, r, fv))
	}
}

func (e *Engine) pointeeHeap(t types.Type) (string, string) {
	return "P_" + e.typeKey(t), arraySort(sRef, e.sortOf(t))
}

func (e *Engine) loadPointee(st *State, r T, t types.Type) T {
	if _, ok := isStruct(t); ok && !e.isIntrinsicStruct(t) {
		return e.loadStruct(st, r, t)
	}
	hn, hs := e.pointeeHeap(t)
	return tSel(e.heap(st, hn, hs), r)
}

func (e *Engine) storePointee(st *State, r T, t types.Type, v T) {
	if _, ok := isStruct(t); ok && !e.isIntrinsicStruct(t) {
		e.storeStruct(st, r, t, v)
		return
	}
	hn, hs := e.pointeeHeap(t)
	e.recStore(st, hn, r)
	e.setHeap(st, hn, tStore(e.heap(st, hn, hs), r, v))
}

func (e *Engine) elemHeap(t types.Type) (string, string) {
	return "E_" + e.typeKey(t), arraySort(sRef, arraySort(sInt, e.sortOf(t)))
}

// loadElem reads element idx (absolute index into the backing store) of base.
func (e *Engine) loadElem(st *State, base, idx T, et types.Type) T {
	if _, ok := isStruct(et); ok && !e.isIntrinsicStruct(et) {
		return e.loadStruct(st, T{app("eref", base, idx), sRef}, et)
	}
	hn, hs := e.elemHeap(et)
	return tSel(tSel(e.heap(st, hn, hs), base), idx)
}

func (e *Engine) storeElem(st *State, base, idx T, et types.Type, v T) {
	if _, ok := isStruct(et); ok && !e.isIntrinsicStruct(et) {
		e.storeStruct(st, T{app("eref", base, idx), sRef}, et, v)
		return
	}
	hn, hs := e.elemHeap(et)
	h := e.heap(st, hn, hs)
	e.recStore(st, hn, base)
	e.setHeap(st, hn, tStore(h, base, tStore(tSel(h, base), idx, v)))
}

// load dereferences pointer value p whose pointee type is t.
func (e *Engine) load(st *State, p Val, t types.Type) Val {
	switch q := p.(type) {
	case *CellPtr:
		v, ok := st.cells[q.key]
		if !ok {
			e.unsupported("read of uninitialised cell %s", q.key.alloc.Comment)
		}
		for i, f := range q.path {
			tv := v.(T)
			sty := q.ptypes[i].Underlying().(*types.Struct)
			sort := e.sortOf(q.ptypes[i])
			v = T{fmt.Sprintf("(%s %s)", e.fieldSel(sort, sty, f), tv.S), e.sortOf(sty.Field(f).Type())}
		}
		return v
	case *FieldPtr:
		h := e.heap(st, q.heap, arraySort(sRef, e.sortOf(q.ftype)))
		return e.wrapFunc(tSel(h, q.base), t)
	case *ElemPtr:
		return e.wrapFunc(e.loadElem(st, q.base, q.idx, q.etype), t)
	case *GlobalPtr:
		return e.loadGlobal(st, q.g)
	case T:
		return e.wrapFunc(e.loadPointee(st, q, t), t)
	case *MergeV:
		e.unsupported("load through merged pointer")
	}
	e.unsupported("load through %T", p)
	return nil
}

func (e *Engine) wrapFunc(v T, t types.Type) Val { return v }

// store writes v through pointer p (pointee type t).
func (e *Engine) store(st *State, p Val, t types.Type, v Val) {
	switch q := p.(type) {
	case *CellPtr:
		if len(q.path) == 0 {
			st.cells[q.key] = v
			return
		}
		root, ok := st.cells[q.key].(T)
		if !ok {
			e.unsupported("field store into non-term cell")
		}
		st.cells[q.key] = e.name(e.updatePath(root, q.path, q.ptypes, e.toTerm(v, t)), "c_"+q.key.alloc.Comment)
	case *FieldPtr:
		h := e.heap(st, q.heap, arraySort(sRef, e.sortOf(q.ftype)))
		e.recStore(st, q.heap, q.base)
		e.setHeap(st, q.heap, tStore(h, q.base, e.toTerm(v, q.ftype)))
	case *ElemPtr:
		e.storeElem(st, q.base, q.idx, q.etype, e.toTerm(v, q.etype))
	case *GlobalPtr:
		st.heaps[e.globalName(q.g)] = e.name(e.toTerm(v, t), "g")
		e.heapSort[e.globalName(q.g)] = e.sortOf(t)
	case T:
		e.storePointee(st, q, t, e.toTerm(v, t))
	default:
		e.unsupported("store through %T", p)
	}
}

// updatePath rebuilds struct value root with the field at path replaced by nv.
func (e *Engine) updatePath(root T, path []int, ptypes []types.Type, nv T) T {
	sty := ptypes[0].Underlying().(*types.Struct)
	sort := e.sortOf(ptypes[0])
	var args []T
	for i := 0; i < sty.NumFields(); i++ {
		cur := T{fmt.Sprintf("(%s %s)", e.fieldSel(sort, sty, i), root.S), e.sortOf(sty.Field(i).Type())}
		if i == path[0] {
			if len(path) == 1 {
				cur = nv
			} else {
				cur = e.updatePath(cur, path[1:], ptypes[1:], nv)
			}
		}
		args = append(args, cur)
	}
	return T{app("mk_"+sort, args...), sort}
}

// toTerm converts an engine value into an SMT term of type t (function values become
// opaque Func constants).
func (e *Engine) toTerm(v Val, t types.Type) T {
	switch x := v.(type) {
	case T:
		return x
	case *FuncV, *MergeV:
		return e.funcToTerm(x)
	}
	e.unsupported("value %T cannot be stored in memory", v)
	return T{}
}

var funcConsts = map[*Engine]map[*ssa.Function]T{}

func (e *Engine) funcToTerm(v Val) T {
	switch x := v.(type) {
	case *FuncV:
		if len(x.binds) == 0 && x.recv == nil {
			m := funcConsts[e]
			if m == nil {
				m = map[*ssa.Function]T{}
				funcConsts[e] = m
			}
			if t, ok := m[x.fn]; ok {
				return t
			}
			t := e.fresh(sFunc, "fn_"+x.fn.Name())
			m[x.fn] = t
			return t
		}
		return e.fresh(sFunc, "closure")
	case *MergeV:
		return e.fresh(sFunc, "closure")
	case T:
		return x
	}
	e.unsupported("function value %T", v)
	return T{}
}

func (e *Engine) globalName(g *ssa.Global) string {
	return "G_" + sanitize(g.Pkg.Pkg.Name()) + "_" + g.Name()
}

// ---------------------------------------------------------------------------------------------
// Globals

func (e *Engine) isImmutableGlobal(g *ssa.Global) bool {
	if v := e.immutable[g]; v != 0 {
		return v == 1
	}
	// ghost variables of the overlay are mutable state
	res := 1
	if strings.HasPrefix(g.Name(), "Gvc") || strings.HasPrefix(g.Name(), "gvc") {
		res = 2
	} else if g.Pkg != nil {
		for _, m := range g.Pkg.Members {
			fn, ok := m.(*ssa.Function)
			if !ok {
				continue
			}
			if fn.Name() == "init" {
				continue
			}
			if storesTo(fn, g) {
				res = 2
				break
			}
		}
		if res == 1 {
			// methods
			for _, m := range g.Pkg.Members {
				tn, ok := m.(*ssa.Type)
				if !ok {
					continue
				}
				for _, T := range []types.Type{tn.Type(), types.NewPointer(tn.Type())} {
					ms := e.P.SSA.MethodSets.MethodSet(T)
					for i := 0; i < ms.Len(); i++ {
						fn := e.P.SSA.MethodValue(ms.At(i))
						if fn != nil && fn.Pkg == g.Pkg && storesTo(fn, g) {
							res = 2
						}
					}
				}
			}
		}
	}
	e.immutable[g] = res
	return res == 1
}

func storesTo(fn *ssa.Function, g *ssa.Global) bool {
	found := false
	var visit func(f *ssa.Function)
	visit = func(f *ssa.Function) {
		for _, b := range f.Blocks {
			for _, in := range b.Instrs {
				switch x := in.(type) {
				case *ssa.Store:
					if x.Addr == g {
						found = true
					}
				default:
					// address escaping: any other use of g as an operand except loads
					if _, isLoad := in.(*ssa.UnOp); isLoad {
						continue
					}
					for _, op := range in.Operands(nil) {
						if *op == g {
							if _, ok := in.(*ssa.FieldAddr); ok {
								// field address of a global struct: treat as mutable unless only loaded
								found = true
							}
							if _, ok := in.(*ssa.Call); ok {
								found = true
							}
						}
					}
				}
			}
		}
		for _, a := range f.AnonFuncs {
			visit(a)
		}
	}
	visit(fn)
	return found
}

func (e *Engine) loadGlobal(st *State, g *ssa.Global) Val {
	t := g.Type().(*types.Pointer).Elem()
	sort := e.sortOf(t)
	if e.isImmutableGlobal(g) {
		if c, ok := e.globalConst[g]; ok {
			return c
		}
		name := "gconst_" + sanitize(g.Pkg.Pkg.Name()) + "_" + g.Name()
		e.emitDecl(fmt.Sprintf("(declare-const %s %s)", name, sort))
		c := T{name, sort}
		e.globalConst[g] = c
		if sort == sIface && e.isErrorSentinel(g) {
			// sentinel errors: non-nil, pairwise distinct pointers
			e.emitDecl(fmt.Sprintf("(assert ((_ is if_ref) %s))", name))
			e.emitDecl(fmt.Sprintf("(assert (= (dtyp %s) %d))", name, e.pseudoTypeID("*errors.errorString(sentinel)")))
			e.emitDecl(fmt.Sprintf("(assert (= (newid (iref %s)) 0))", name))
			for _, o := range e.sentinels {
				e.emitDecl(fmt.Sprintf("(assert (not (= %s %s)))", name, o))
			}
			e.sentinels = append(e.sentinels, name)
			e.emitDecl(fmt.Sprintf("(assert (forall ((t Iface)) (! (= (err_is_u %s t) false) :pattern ((err_is_u %s t)))))", name, name))
		}
		if sort == sSlice {
			e.emitDecl(fmt.Sprintf("(assert (wf_slice %s))", name))
		}
		e.trust("package-level variable " + g.String() + " is never reassigned after init (checked syntactically within its package) and is treated as a constant")
		return c
	}
	return e.heap(st, e.globalName(g), sort)
}

// isErrorSentinel: initialised in init by errors.New / fmt.Errorf.
func (e *Engine) isErrorSentinel(g *ssa.Global) bool {
	if strings.HasPrefix(g.Name(), "Err") && !e.inModule(g.Pkg.Pkg.Path()) {
		if types.Identical(g.Type().(*types.Pointer).Elem(), types.Universe.Lookup("error").Type()) {
			e.trust("library variable " + g.String() + " is a non-nil sentinel error")
			return true
		}
	}
	init := g.Pkg.Func("init")
	if init == nil {
		return false
	}
	for _, b := range init.Blocks {
		for _, in := range b.Instrs {
			s, ok := in.(*ssa.Store)
			if !ok || s.Addr != g {
				continue
			}
			if c, ok := s.Val.(*ssa.Call); ok {
				if f := c.Call.StaticCallee(); f != nil {
					n := f.String()
					if n == "errors.New" || n == "fmt.Errorf" {
						return true
					}
				}
			}
		}
	}
	return false
}

// ---------------------------------------------------------------------------------------------
// Type invariants of values of unknown origin

func (e *Engine) typeInv(v T, t types.Type, depth int) T {
	switch u := t.Underlying().(type) {
	case *types.Slice:
		return T{app("wf_slice", v), sBool}
	case *types.Basic:
		switch u.Kind() {
		case types.Uint8:
			if v.Sort == sInt {
				return T{fmt.Sprintf("(and (<= 0 %s) (<= %s 255))", v.S, v.S), sBool}
			}
		}
	case *types.Struct:
		if depth > 1 || e.isIntrinsicStruct(t) {
			return tTrue
		}
		sort := e.sortOf(t)
		res := tTrue
		for i := 0; i < u.NumFields(); i++ {
			ft := u.Field(i).Type()
			fv := T{fmt.Sprintf("(%s %s)", e.fieldSel(sort, u, i), v.S), e.sortOf(ft)}
			res = tAnd(res, e.typeInv(fv, ft, depth+1))
		}
		return res
	}
	return tTrue
}

func (e *Engine) assumeTypeInv(st *State, v Val, t types.Type) {
	if tv, ok := v.(T); ok {
		e.assume(st, e.typeInv(tv, t, 0))
	}
}

// freshOfType returns an unconstrained value of Go type t with its type invariant assumed.
func (e *Engine) freshOfType(st *State, t types.Type, hint string) Val {
	if tup, ok := t.(*types.Tuple); ok {
		if tup.Len() == 1 {
			return e.freshOfType(st, tup.At(0).Type(), hint)
		}
		var out Tuple
		for i := 0; i < tup.Len(); i++ {
			out = append(out, e.freshOfType(st, tup.At(i).Type(), hint))
		}
		return out
	}
	v := e.fresh(e.sortOf(t), hint)
	e.assumeTypeInv(st, v, t)
	e.assume(st, e.olderThanNow(st, v))
	return v
}

func sortStrings(s []string) []string { sort.Strings(s); return s }
