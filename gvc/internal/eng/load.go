package eng

import (
	"strconv"
	"fmt"
	"go/ast"
	"go/parser"
	"go/token"
	"go/types"
	"os"
	"path/filepath"
	"regexp"
	"sort"
	"strings"
	"time"

	"golang.org/x/tools/go/packages"
	"golang.org/x/tools/go/ssa"
	"golang.org/x/tools/go/ssa/ssautil"
)

// LoadConfig says what to load.
type LoadConfig struct {
	ModDir   string   // module directory (/repo or /repo/cmd/atlas)
	Patterns []string // package patterns
	// Extra contract files applied to every package that has contracts (stdlib externs).
	SharedSpecs []string
	// Extra contract files per package path (in addition to verif_contracts*.go found in the package dir).
	ExtraSpecs map[string][]string
	Tags       string
	Env        []string
}

// Program is the loaded, contract-annotated SSA program.
type Program struct {
	Cfg       LoadConfig
	Fset      *token.FileSet
	Pkgs      []*packages.Package
	AllPkgs   map[string]*packages.Package
	SSA       *ssa.Program
	SSAPkgs   map[string]*ssa.Package
	Files     map[string]*ContractFile // by package path
	Contracts map[string]*Contract     // by "pkgpath::key"
	Externs   map[string]*Contract     // by full name e.g. "(ariga.io/atlas/sql/migrate.RevisionReadWriter).WriteRevision" or "strings.TrimPrefix"
	ByFunc    map[*ssa.Function]*Contract
	RecFuncs  map[*ssa.Function]bool
	RecFuel   map[*ssa.Function]bool // `rec name fuel`: axiomatised with fuel instead of define-fun-rec
	Overlay   map[string][]byte
	srcCache  map[string][]byte
}

const overlayName = "gvc_spec_gen.go"

func loadPkgs(cfg LoadConfig, overlay map[string][]byte) ([]*packages.Package, *token.FileSet, error) {
	fset := token.NewFileSet()
	tags := "verif"
	if cfg.Tags != "" {
		tags = cfg.Tags
	}
	pc := &packages.Config{
		Mode:       packages.LoadAllSyntax | packages.NeedModule,
		Dir:        cfg.ModDir,
		Fset:       fset,
		BuildFlags: []string{"-tags=" + tags, "-mod=mod"},
		Overlay:    overlay,
		Env:        append(os.Environ(), cfg.Env...),
	}
	pkgs, err := packages.Load(pc, cfg.Patterns...)
	if err != nil {
		return nil, nil, err
	}
	var errs []string
	var perrs []packages.Error
	packages.Visit(pkgs, nil, func(p *packages.Package) {
		for _, e := range p.Errors {
			errs = append(errs, e.Error())
			perrs = append(perrs, e)
		}
	})
	if len(errs) > 0 {
		if len(errs) > 30 {
			errs = errs[:30]
		}
		return nil, nil, &loadError{msg: fmt.Sprintf("load errors:\n  %s", strings.Join(errs, "\n  ")), errs: perrs}
	}
	return pkgs, fset, nil
}

type loadError struct {
	msg  string
	errs []packages.Error
}

func (e *loadError) Error() string { return e.msg }

var clauseMarkRe = regexp.MustCompile(`^// gvc:clause (\S+) (\d+)$`)

// blameClauses maps type errors inside generated overlay files to the clauses whose generated
// functions contain them and marks those clauses broken.  It reports whether every error could
// be attributed (only then a reload without the broken clauses makes sense).
func (p *Program) blameClauses(le *loadError) bool {
	if len(le.errs) == 0 {
		return false
	}
	marked := 0
	for _, e := range le.errs {
		parts := strings.Split(e.Pos, ":")
		if len(parts) < 2 || !strings.HasSuffix(parts[0], overlayName) {
			return false
		}
		src, ok := p.Overlay[parts[0]]
		if !ok {
			return false
		}
		line, err := strconv.Atoi(parts[1])
		if err != nil {
			return false
		}
		lines := strings.Split(string(src), "\n")
		found := false
		for i := line - 1; i >= 0 && i < len(lines); i-- {
			if strings.HasPrefix(lines[i], "// ---- ") {
				break
			}
			if m := clauseMarkRe.FindStringSubmatch(lines[i]); m != nil {
				idx, _ := strconv.Atoi(m[2])
				for _, cf := range p.Files {
					for _, c := range cf.Contracts {
						if c.ID == m[1] && idx < len(c.Clauses) && filepath.Join(filepath.Dir(c.File), overlayName) == parts[0] {
							if c.Clauses[idx].Broken == "" {
								c.Clauses[idx].Broken = fmt.Sprintf("%s:%d: clause no longer type-checks against the code: %s", c.Clauses[idx].File, c.Clauses[idx].Line, e.Msg)
								marked++
							}
							found = true
						}
					}
				}
				break
			}
		}
		if !found {
			return false
		}
	}
	return marked > 0
}

// Load performs the two-phase load: phase 1 type-checks the packages to resolve the locals
// and old() types mentioned by contracts, generates the overlay, phase 2 loads with the
// overlay and builds SSA.
func Load(cfg LoadConfig) (*Program, error) {
	// phase 0: find the packages and their contract files (no type checking)
	t0 := time.Now()
	defer func() {
		if os.Getenv("GVC_TIMING") != "" {
			fmt.Fprintf(os.Stderr, "load total %v\n", time.Since(t0))
		}
	}()
	base, err := baseOverlays(cfg)
	if os.Getenv("GVC_TIMING") != "" {
		fmt.Fprintf(os.Stderr, "phase0 %v\n", time.Since(t0))
	}
	if err != nil {
		return nil, fmt.Errorf("phase 0: %w", err)
	}
	pkgs1, fset1, err := loadPkgs(cfg, base)
	if err != nil {
		return nil, fmt.Errorf("phase 1 (prelude, ghost state and spec helpers only): %w", err)
	}
	p := &Program{Cfg: cfg, Files: map[string]*ContractFile{}, Contracts: map[string]*Contract{}, Externs: map[string]*Contract{}, Overlay: map[string][]byte{}, srcCache: map[string][]byte{}}
	if os.Getenv("GVC_TIMING") != "" {
		fmt.Fprintf(os.Stderr, "phase1 %v\n", time.Since(t0))
	}
	all1 := map[string]*packages.Package{}
	packages.Visit(pkgs1, nil, func(pk *packages.Package) { all1[pk.PkgPath] = pk })
	// find contract files
	for _, pk := range sortedPkgs(all1) {
		if pk.Module == nil || len(pk.GoFiles) == 0 {
			continue
		}
		dir := filepath.Dir(pk.GoFiles[0])
		if !strings.HasPrefix(dir, cfg.ModDir) && !inRepo(dir) {
			continue
		}
		matches, _ := filepath.Glob(filepath.Join(dir, "verif_contracts*.go"))
		matches = append(matches, cfg.ExtraSpecs[pk.PkgPath]...)
		if len(matches) == 0 {
			continue
		}
		sort.Strings(matches)
		merged := &ContractFile{PkgPath: pk.PkgPath}
		files := append([]string{}, matches...)
		files = append(files, cfg.SharedSpecs...)
		for _, f := range files {
			cf, err := ParseContractFile(f, pk.PkgPath)
			if err != nil {
				return nil, err
			}
			merged.Imports = append(merged.Imports, cf.Imports...)
			merged.Ghosts = append(merged.Ghosts, cf.Ghosts...)
			merged.SpecLines = append(merged.SpecLines, cf.SpecLines...)
			merged.Recs = append(merged.Recs, cf.Recs...)
			merged.Contracts = append(merged.Contracts, cf.Contracts...)
			merged.Lemmas = append(merged.Lemmas, cf.Lemmas...)
		}
		p.Files[pk.PkgPath] = merged
		if err := inheritViews(merged.Contracts); err != nil {
			return nil, err
		}
		src, err := generateOverlay(pk, fset1, merged)
		if err != nil {
			return nil, err
		}
		p.Overlay[filepath.Join(dir, overlayName)] = src
	}
	if os.Getenv("GVC_DUMP_OVERLAY") != "" {
		for f, src := range p.Overlay {
			os.WriteFile(filepath.Join(os.Getenv("GVC_DUMP_OVERLAY"), sanitize(f)+".go"), src, 0o644)
		}
	}
	pkgs, fset, err := loadPkgs(cfg, p.Overlay)
	for try := 0; err != nil && try < 3; try++ {
		// clauses that no longer type-check against the code are dropped (and reported per
		// function) instead of making every function of the load undecidable
		le, ok := err.(*loadError)
		if !ok || !p.blameClauses(le) {
			break
		}
		for _, pk := range sortedPkgs(all1) {
			cf := p.Files[pk.PkgPath]
			if cf == nil {
				continue
			}
			src, gerr := generateOverlay(pk, fset1, cf)
			if gerr != nil {
				return nil, gerr
			}
			p.Overlay[filepath.Join(filepath.Dir(pk.GoFiles[0]), overlayName)] = src
		}
		pkgs, fset, err = loadPkgs(cfg, p.Overlay)
	}
	if err != nil {
		return nil, fmt.Errorf("phase 2 (with generated specs): %w", err)
	}
	if os.Getenv("GVC_TIMING") != "" {
		fmt.Fprintf(os.Stderr, "phase2 %v\n", time.Since(t0))
	}
	p.Pkgs, p.Fset = pkgs, fset
	p.AllPkgs = map[string]*packages.Package{}
	packages.Visit(pkgs, nil, func(pk *packages.Package) { p.AllPkgs[pk.PkgPath] = pk })
	prog, _ := ssautil.AllPackages(pkgs, ssa.NaiveForm|ssa.GlobalDebug|ssa.InstantiateGenerics)
	prog.Build()
	p.SSA = prog
	p.SSAPkgs = map[string]*ssa.Package{}
	for _, sp := range prog.AllPackages() {
		p.SSAPkgs[sp.Pkg.Path()] = sp
	}
	if err := p.resolveContracts(); err != nil {
		return nil, err
	}
	return p, nil
}

// baseOverlays builds, per package with contracts, an overlay holding only the prelude, the
// ghost variables and the verbatim spec helpers, so that phase 1 can type old() arguments
// that mention them.
func baseOverlays(cfg LoadConfig) (map[string][]byte, error) {
	tags := "verif"
	if cfg.Tags != "" {
		tags = cfg.Tags
	}
	pc := &packages.Config{Mode: packages.NeedName | packages.NeedFiles | packages.NeedImports | packages.NeedDeps | packages.NeedModule,
		Dir: cfg.ModDir, BuildFlags: []string{"-tags=" + tags, "-mod=mod"}, Env: append(os.Environ(), cfg.Env...)}
	pkgs, err := packages.Load(pc, cfg.Patterns...)
	if err != nil {
		return nil, err
	}
	out := map[string][]byte{}
	var ferr error
	packages.Visit(pkgs, nil, func(pk *packages.Package) {
		if pk.Module == nil || len(pk.GoFiles) == 0 || ferr != nil {
			return
		}
		dir := filepath.Dir(pk.GoFiles[0])
		if !strings.HasPrefix(dir, cfg.ModDir) && !inRepo(dir) {
			return
		}
		matches, _ := filepath.Glob(filepath.Join(dir, "verif_contracts*.go"))
		matches = append(matches, cfg.ExtraSpecs[pk.PkgPath]...)
		if len(matches) == 0 {
			return
		}
		sort.Strings(matches)
		merged := &ContractFile{PkgPath: pk.PkgPath}
		for _, f := range append(append([]string{}, matches...), cfg.SharedSpecs...) {
			cf, err := ParseContractFile(f, pk.PkgPath)
			if err != nil {
				ferr = err
				return
			}
			merged.Imports = append(merged.Imports, cf.Imports...)
			merged.Ghosts = append(merged.Ghosts, cf.Ghosts...)
			merged.SpecLines = append(merged.SpecLines, cf.SpecLines...)
		}
		src, err := generateOverlay(pk, nil, merged)
		if err != nil {
			ferr = err
			return
		}
		out[filepath.Join(dir, overlayName)] = src
	})
	return out, ferr
}

func inRepo(dir string) bool { return strings.HasPrefix(dir, "/repo") }

func sortedPkgs(m map[string]*packages.Package) []*packages.Package {
	var out []*packages.Package
	for _, k := range sortedKeys(m) {
		out = append(out, m[k])
	}
	return out
}

// ---------------------------------------------------------------------------------------------
// Overlay generation

const prelude = `
// ---- gvc prelude (intrinsics; bodies are never executed) ----
func GvcForall[T any](f func(T) bool) bool { panic("gvc") }
func GvcExists[T any](f func(T) bool) bool { panic("gvc") }
func GvcSome[T any](f func(T) bool) bool   { panic("gvc") }
func GvcOld[T any](f func() T) T           { panic("gvc") }
func GvcHavoc[T any]() T                   { panic("gvc") }
func GvcAssume(b bool)                     { panic("gvc") }
func GvcAssert(b bool, label string)       { panic("gvc") }
func GvcFresh[T any](p T) bool             { panic("gvc") }
func GvcLoopFresh[T any](p T) bool         { panic("gvc") }
func GvcBase[T any](s []T) *T              { panic("gvc") }
func GvcElemsFrame[T any](s []T) bool      { panic("gvc") }
func GvcSameElems[T any](s []T) bool       { panic("gvc") }
func GvcTypeName(x any) string             { panic("gvc") }
func GvcDynTypeIs(x any, name string) bool { panic("gvc") }

type GvcArr[K comparable, V any] struct{ _ [0]func(K) V }

func GvcEq[T any](a, b T) bool { panic("gvc") }
func GvcAget[K comparable, V any](a GvcArr[K, V], k K) V               { panic("gvc") }
func GvcAset[K comparable, V any](a GvcArr[K, V], k K, v V) GvcArr[K, V] { panic("gvc") }

type GvcSeq[T any] struct {
	N int
	A GvcArr[int, T]
}

func GvcPush[T any](s GvcSeq[T], x T) GvcSeq[T] { return GvcSeq[T]{N: s.N + 1, A: GvcAset(s.A, s.N, x)} }
func GvcAt[T any](s GvcSeq[T], i int) T         { return GvcAget(s.A, i) }

type GvcMap[K comparable, V any] struct {
	Has GvcArr[K, bool]
	Val GvcArr[K, V]
}

func GvcPut[K comparable, V any](m GvcMap[K, V], k K, v V) GvcMap[K, V] {
	return GvcMap[K, V]{Has: GvcAset(m.Has, k, true), Val: GvcAset(m.Val, k, v)}
}
func GvcIs[T any](x any) bool { _, ok := x.(T); return ok }
`

func generateOverlay(pk *packages.Package, fset *token.FileSet, cf *ContractFile) ([]byte, error) {
	var b strings.Builder
	b.WriteString("// Code generated by gvc from //@ contract comments. DO NOT EDIT.\n\n")
	b.WriteString("package " + pk.Name + "\n\n")
	// imports are added at the end (we need to know which are used); use a placeholder.
	b.WriteString("/*IMPORTS*/\n")
	b.WriteString(prelude)
	b.WriteString("\n// ---- ghost state ----\n")
	for _, g := range cf.Ghosts {
		b.WriteString("var " + g + "\n")
	}
	b.WriteString("\n// ---- spec helpers ----\n")
	specText := strings.Join(cf.SpecLines, "\n")
	if strings.Contains(specText, "(forall ") || strings.Contains(specText, "(exists ") || strings.Contains(specText, "(some ") {
		ds, err := desugarGroups(specText, nil)
		if err != nil {
			return nil, fmt.Errorf("spec helpers of %s: %v", pk.PkgPath, err)
		}
		specText = ds
	}
	b.WriteString(specText + "\n")
	b.WriteString("\n// ---- contract clauses ----\n")

	imports := map[string]string{} // alias -> path
	for _, im := range cf.Imports {
		f := strings.Fields(im)
		switch len(f) {
		case 1:
			path := strings.Trim(f[0], `"`)
			imports[filepath.Base(path)] = path
		case 2:
			imports[f[0]] = strings.Trim(f[1], `"`)
		default:
			return nil, fmt.Errorf("bad import %q", im)
		}
	}
	// imports of the package's own files are available under their names
	syntax := pk.Syntax
	if len(syntax) == 0 {
		pfset := token.NewFileSet()
		for _, gf := range pk.GoFiles {
			if filepath.Base(gf) == overlayName {
				continue
			}
			if af, err := parser.ParseFile(pfset, gf, nil, parser.ImportsOnly); err == nil {
				syntax = append(syntax, af)
			}
		}
	}
	for _, f := range syntax {
		for _, is := range f.Imports {
			path := strings.Trim(is.Path.Value, `"`)
			name := ""
			if is.Name != nil {
				name = is.Name.Name
				if name == "_" || name == "." {
					continue
				}
			} else if ip := pk.Imports[path]; ip != nil && ip.Name != "" {
				name = ip.Name
			} else {
				name = filepath.Base(path)
			}
			if _, ok := imports[name]; !ok {
				imports[name] = path
			}
		}
	}
	extraAlias := map[string]string{} // path -> alias for locals' types
	qual := func(other *types.Package) string {
		if other == pk.Types {
			return ""
		}
		for a, p := range imports {
			if p == other.Path() {
				return a
			}
		}
		if a, ok := extraAlias[other.Path()]; ok {
			return a
		}
		a := fmt.Sprintf("gvcp%d_%s", len(extraAlias), sanitize(other.Name()))
		extraAlias[other.Path()] = a
		imports[a] = other.Path()
		return a
	}

	for _, c := range cf.Contracts {
		var fd *ast.FuncDecl
		var fobj *types.Func
		if !c.Extern {
			fd, fobj = findFuncDecl(pk, c)
			if fd == nil {
				return nil, fmt.Errorf("%s:%d: contract for %s: no such function in package %s", c.File, c.Line, c.Key, pk.PkgPath)
			}
			if c.Closure > 0 {
				lits := directFuncLits(fd)
				if c.Closure > len(lits) {
					return nil, fmt.Errorf("%s:%d: %s has %d function literals, contract names literal %d", c.File, c.Line, c.FuncName, len(lits), c.Closure)
				}
				lit := lits[c.Closure-1]
				fd = &ast.FuncDecl{Name: fd.Name, Type: lit.Type, Body: lit.Body}
			}
		}
		_ = fobj
		sigPre := c.sigParams(false)
		sigPost := c.sigParams(true)
		counts := map[string]int{}
	clauses:
		for _, cl := range c.Clauses {
			n := counts[cl.Kind]
			counts[cl.Kind]++
			if cl.Broken != "" {
				continue
			}
			fmt.Fprintf(&b, "// gvc:clause %s %d\n", c.ID, clauseIndex(c, cl))
			switch cl.Kind {
			case "requires", "ensures", "assert":
				pos := token.NoPos
				if fd != nil {
					pos = fd.Body.Lbrace + 1
					if cl.Kind == "ensures" {
						pos = fd.Body.Rbrace
					}
				}
				ex, err := Desugar(cl.Expr, oldTyper(pk, fset, pos, qual))
				if err != nil {
					return nil, fmt.Errorf("%s:%d: %v", cl.File, cl.Line, err)
				}
				cl.Gen = fmt.Sprintf("gvc_%s_%s_%d", c.ID, cl.Kind[:3], n)
				sig := sigPre
				if cl.Kind == "ensures" {
					sig = sigPost
				}
				fmt.Fprintf(&b, "func %s%s(%s) bool {\n\treturn %s\n}\n", cl.Gen, c.typeParams(), sig, ex)
			case "effect":
				cl.Gen = fmt.Sprintf("gvc_%s_eff_%d", c.ID, n)
				body, err := desugarStmts(cl.Expr, oldTyper(pk, fset, token.NoPos, qual))
				if err != nil {
					return nil, fmt.Errorf("%s:%d: %v", cl.File, cl.Line, err)
				}
				fmt.Fprintf(&b, "func %s%s(%s) {\n\t%s\n}\n", cl.Gen, c.typeParams(), sigPost, body)
			case "modifies":
				cl.Gen = fmt.Sprintf("gvc_%s_mod_%d", c.ID, n)
				var items []string
				for _, it := range splitTop(cl.Expr, ",") {
					it = strings.TrimSpace(it)
					switch {
					case it == "nothing" || it == "everything" || it == "":
						items = append(items, fmt.Sprintf("%q", it))
					case strings.HasPrefix(it, "heap(") || strings.HasPrefix(it, "struct("):
						items = append(items, fmt.Sprintf("%q", it))
					case strings.HasPrefix(it, "elems(") && strings.HasSuffix(it, ")"):
						items = append(items, `"elems"`, it[6:len(it)-1])
					case strings.HasPrefix(it, "*"):
						items = append(items, `"obj"`, it[1:])
					default:
						items = append(items, `"loc"`, "&("+it+")")
					}
				}
				fmt.Fprintf(&b, "func %s%s(%s) []any {\n\treturn []any{%s}\n}\n", cl.Gen, c.typeParams(), sigPre, strings.Join(items, ", "))
			case "localwrites", "freshwrites":
				// no generated function
			case "invariant", "decreases":
				cl.Locals = nil
				if fd == nil {
					cl.Broken = fmt.Sprintf("%s:%d: loop clause on extern", cl.File, cl.Line)
				continue clauses
				}
				loops := loopStmts(fd)
				if cl.Loop < 1 || cl.Loop > len(loops) {
					cl.Broken = fmt.Sprintf("%s:%d: %s has %d loops, clause names loop %d", cl.File, cl.Line, c.Key, len(loops), cl.Loop)
				continue clauses
				}
				lp := loops[cl.Loop-1]
				var bodyPos token.Pos
				switch l := lp.(type) {
				case *ast.ForStmt:
					bodyPos = l.Body.Lbrace + 1
				case *ast.RangeStmt:
					bodyPos = l.Body.Lbrace + 1
				}
				// inside old(...), parameters denote their entry values
				var pnames []string
				if fd.Recv != nil {
					for _, f := range fd.Recv.List {
						for _, n := range f.Names {
							pnames = append(pnames, n.Name)
						}
					}
				}
				for _, f := range fd.Type.Params.List {
					for _, n := range f.Names {
						pnames = append(pnames, n.Name)
					}
				}
				oldArgRewrite = func(arg string) string {
					for _, pn := range pnames {
						if pn == "_" {
							continue
						}
						re := regexp.MustCompile(`(^|[^A-Za-z0-9_.])` + regexp.QuoteMeta(pn) + `\b`)
						arg = re.ReplaceAllString(arg, "${1}gvcentry_"+pn)
					}
					return arg
				}
				ex, err := Desugar(cl.Expr, oldTyper(pk, fset, bodyPos, qual))
				oldArgRewrite = nil
				if err != nil {
					cl.Broken = fmt.Sprintf("%s:%d: %v", cl.File, cl.Line, err)
				continue clauses
				}
				ids, err := FreeIdents(ex)
				if err != nil {
					cl.Broken = fmt.Sprintf("%s:%d: %v", cl.File, cl.Line, err)
				continue clauses
				}
				var ps []string
				scope := pk.Types.Scope().Innermost(bodyPos)
				for _, id := range ids {
					if id == "loopk" {
						ps = append(ps, "loopk int")
						cl.Locals = append(cl.Locals, LocalRef{Name: "loopk", ParamIdx: -1, Type: "int"})
						continue
					}
					if loopiRe.MatchString(id) {
						ps = append(ps, id+" int")
						cl.Locals = append(cl.Locals, LocalRef{Name: id, ParamIdx: -1, Type: "int"})
						continue
					}
					if id == "loopseen" {
						// the set of keys a range-over-map loop has visited so far
						rs, ok := lp.(*ast.RangeStmt)
						if !ok {
							cl.Broken = fmt.Sprintf("%s:%d: loopseen on a non-range loop", cl.File, cl.Line)
							continue clauses
						}
						tv, ok := pk.TypesInfo.Types[rs.X]
						mt, isMap := tv.Type.Underlying().(*types.Map)
						if !ok || !isMap {
							cl.Broken = fmt.Sprintf("%s:%d: loopseen: the loop does not range over a map", cl.File, cl.Line)
							continue clauses
						}
						ts := "GvcArr[" + types.TypeString(mt.Key(), qual) + ", bool]"
						ps = append(ps, "loopseen "+ts)
						cl.Locals = append(cl.Locals, LocalRef{Name: "loopseen", ParamIdx: -1, Type: ts})
						continue
					}
					if id == "loopx" {
						rs, ok := lp.(*ast.RangeStmt)
						if !ok {
							cl.Broken = fmt.Sprintf("%s:%d: loopx on a non-range loop", cl.File, cl.Line)
						continue clauses
						}
						tv, ok := pk.TypesInfo.Types[rs.X]
						if !ok {
							cl.Broken = fmt.Sprintf("%s:%d: loopx: no type", cl.File, cl.Line)
						continue clauses
						}
						ts := types.TypeString(tv.Type, qual)
						ps = append(ps, "loopx "+ts)
						cl.Locals = append(cl.Locals, LocalRef{Name: "loopx", ParamIdx: -1, Type: ts})
						continue
					}
					if scope == nil {
						continue
					}
					if strings.HasPrefix(id, "gvcentry_") {
						_, pobj := scope.LookupParent(strings.TrimPrefix(id, "gvcentry_"), bodyPos)
						if pv, ok := pobj.(*types.Var); ok {
							ts := types.TypeString(pv.Type(), qual)
							ps = append(ps, id+" "+ts)
							cl.Locals = append(cl.Locals, LocalRef{Name: id, Entry: true, ParamIdx: -1, Type: ts, Pos: pv.Pos(), Decl: fset.Position(pv.Pos())})
						}
						continue
					}
					_, obj := scope.LookupParent(id, bodyPos)
					v, ok := obj.(*types.Var)
					// names of the contract header that are not (or no longer) visible in the source
					// scope denote the entry values of the parameters, by position
					hdrIdx, hdrType := c.headerParam(id)
					if hdrIdx >= 0 && (!ok || v.Parent() == pk.Types.Scope() || !isParamOf(fd, pk, v)) {
						ps = append(ps, id+" "+hdrType)
						cl.Locals = append(cl.Locals, LocalRef{Name: id, Entry: true, ParamIdx: hdrIdx, Type: hdrType})
						continue
					}
					if !ok || v.Parent() == pk.Types.Scope() || v.Parent() == types.Universe || v.Pkg() != pk.Types {
						continue // package-level or not a variable
					}
					ts := types.TypeString(v.Type(), qual)
					ps = append(ps, id+" "+ts)
					cl.Locals = append(cl.Locals, LocalRef{Name: id, ParamIdx: -1, Type: ts, Pos: v.Pos(), Decl: fset.Position(v.Pos())})
				}
				k := "inv"
				ret := "bool"
				if cl.Kind == "decreases" {
					k, ret = "dec", "int"
				}
				cl.Gen = fmt.Sprintf("gvc_%s_%s_L%d_%d", c.ID, k, cl.Loop, n)
				fmt.Fprintf(&b, "func %s%s(%s) %s {\n\treturn %s\n}\n", cl.Gen, c.typeParams(), strings.Join(ps, ", "), ret, ex)
			default:
				return nil, fmt.Errorf("%s:%d: unknown clause kind %q", cl.File, cl.Line, cl.Kind)
			}
		}
	}
	for _, l := range cf.Lemmas {
		var ps []string
		for _, p := range l.Params {
			ps = append(ps, p.Name+" "+p.Type)
		}
		counts := map[string]int{}
		for _, cl := range l.Clauses {
			n := counts[cl.Kind]
			counts[cl.Kind]++
			ex, err := Desugar(cl.Expr, nil)
			if err != nil {
				return nil, fmt.Errorf("%s:%d: %v", cl.File, cl.Line, err)
			}
			cl.Gen = fmt.Sprintf("gvc_lemma_%s_%s_%d", l.Name, cl.Kind[:3], n)
			fmt.Fprintf(&b, "func %s(%s) bool {\n\treturn %s\n}\n", cl.Gen, strings.Join(ps, ", "), ex)
		}
	}
	src := b.String()
	// imports actually used
	var ib strings.Builder
	ib.WriteString("import (\n")
	for _, a := range sortedKeys(imports) {
		re := regexp.MustCompile(`(^|[^A-Za-z0-9_.])` + regexp.QuoteMeta(a) + `\.[A-Za-z_]`)
		if re.MatchString(src) {
			fmt.Fprintf(&ib, "\t%s %q\n", a, imports[a])
		}
	}
	ib.WriteString(")\n")
	src = strings.Replace(src, "/*IMPORTS*/", ib.String(), 1)
	return []byte(src), nil
}

func (c *Contract) typeParams() string { return c.TypeParams }

// sigParams renders receiver, params (and results when post) as a Go parameter list.
func (c *Contract) sigParams(post bool) string {
	var ps []string
	if c.RecvType != "" {
		ps = append(ps, c.RecvName+" "+c.RecvType)
	}
	for _, p := range c.Params {
		ps = append(ps, p.Name+" "+p.Type)
	}
	if post {
		for _, p := range c.Results {
			ps = append(ps, p.Name+" "+p.Type)
		}
	}
	return strings.Join(ps, ", ")
}

// headerParam: index (receiver first) and type text of a name introduced by the contract header.
func (c *Contract) headerParam(name string) (int, string) {
	i := 0
	if c.RecvType != "" {
		if c.RecvName == name {
			return 0, c.RecvType
		}
		i = 1
	}
	for _, p := range c.Params {
		if p.Name == name {
			return i, p.Type
		}
		i++
	}
	return -1, ""
}

// isParamOf: v is a parameter or the receiver of fd.
func isParamOf(fd *ast.FuncDecl, pk *packages.Package, v *types.Var) bool {
	check := func(fl *ast.FieldList) bool {
		if fl == nil {
			return false
		}
		for _, f := range fl.List {
			for _, n := range f.Names {
				if pk.TypesInfo.Defs[n] == v {
					return true
				}
			}
		}
		return false
	}
	return check(fd.Recv) || check(fd.Type.Params)
}

func desugarStmts(s string, ot func(string) (string, error)) (string, error) {
	// effects are Go statements; only quantifier/old sugar inside expressions is supported,
	// implications are not (they are not statements).
	return desugarGroups(s, ot)
}

var pseudoRe = regexp.MustCompile(`\bloop[ki][0-9]*\b`)
var pseudoSeenRe = regexp.MustCompile(`\bloopseen\b`)
var loopiRe = regexp.MustCompile(`^loopi[1-9]$`)

func oldTyper(pk *packages.Package, fset *token.FileSet, pos token.Pos, qual types.Qualifier) func(string) (string, error) {
	return func(arg string) (string, error) {
		if pos == token.NoPos {
			return "", fmt.Errorf("no scope position")
		}
		arg = pseudoRe.ReplaceAllString(arg, "0")
		tv, err := types.Eval(fset, pk.Types, pos, arg)
		if err != nil {
			return "", err
		}
		return types.TypeString(types.Default(tv.Type), qual), nil
	}
}

func clauseIndex(c *Contract, cl *Clause) int {
	for i, x := range c.Clauses {
		if x == cl {
			return i
		}
	}
	return -1
}

// findFuncDecl locates the declaration a non-extern contract talks about.
func findFuncDecl(pk *packages.Package, c *Contract) (*ast.FuncDecl, *types.Func) {
	recv := strings.TrimPrefix(c.RecvType, "*")
	if i := strings.Index(recv, "["); i >= 0 {
		recv = recv[:i]
	}
	for _, f := range pk.Syntax {
		for _, d := range f.Decls {
			fd, ok := d.(*ast.FuncDecl)
			if !ok || fd.Name.Name != c.FuncName || fd.Body == nil {
				continue
			}
			if (fd.Recv == nil) != (c.RecvType == "") {
				continue
			}
			if fd.Recv != nil {
				t := fd.Recv.List[0].Type
				ptr := false
				if s, ok := t.(*ast.StarExpr); ok {
					t = s.X
					ptr = true
				}
				if ix, ok := t.(*ast.IndexExpr); ok {
					t = ix.X
				}
				id, ok := t.(*ast.Ident)
				if !ok || id.Name != recv || ptr != strings.HasPrefix(c.RecvType, "*") {
					continue
				}
			}
			obj, _ := pk.TypesInfo.Defs[fd.Name].(*types.Func)
			return fd, obj
		}
	}
	return nil, nil
}

// directFuncLits lists the function literals directly inside a function body (not nested
// in another literal) in source order: the order of ssa.Function.AnonFuncs.
func directFuncLits(fd *ast.FuncDecl) []*ast.FuncLit {
	var out []*ast.FuncLit
	ast.Inspect(fd.Body, func(n ast.Node) bool {
		if l, ok := n.(*ast.FuncLit); ok {
			out = append(out, l)
			return false
		}
		return true
	})
	return out
}

// loopStmts lists the for/range statements of a function body in source order, not
// descending into function literals.
func loopStmts(fd *ast.FuncDecl) []ast.Stmt {
	var out []ast.Stmt
	ast.Inspect(fd.Body, func(n ast.Node) bool {
		switch n.(type) {
		case *ast.FuncLit:
			return false
		case *ast.ForStmt, *ast.RangeStmt:
			out = append(out, n.(ast.Stmt))
		}
		return true
	})
	return out
}

// ---------------------------------------------------------------------------------------------
// Phase 2: bind contracts to SSA functions

func (p *Program) resolveContracts() error {
	p.ByFunc = map[*ssa.Function]*Contract{}
	p.RecFuncs = map[*ssa.Function]bool{}
	p.RecFuel = map[*ssa.Function]bool{}
	for _, path := range sortedKeys(p.Files) {
		cf := p.Files[path]
		sp := p.SSAPkgs[path]
		if sp == nil {
			return fmt.Errorf("no SSA package for %s", path)
		}
		for _, r := range cf.Recs {
			fuel := strings.HasSuffix(r, ":fuel")
			r = strings.TrimSuffix(r, ":fuel")
			f := sp.Func(r)
			if f == nil {
				return fmt.Errorf("rec %s: no such spec function in %s", r, path)
			}
			p.RecFuncs[f] = true
			if fuel {
				p.RecFuel[f] = true
			}
		}
		for _, c := range cf.Contracts {
			if c.Extern {
				full, err := p.externFullName(sp, c)
				if err != nil {
					return fmt.Errorf("%s:%d: %v", c.File, c.Line, err)
				}
				if prev, dup := p.Externs[full]; dup {
					return fmt.Errorf("%s:%d: assumed contract for %s is already given at %s:%d", c.File, c.Line, full, prev.File, prev.Line)
				}
				p.Externs[full] = c
				continue
			}
			fn := p.lookupFunc(sp, c)
			if fn == nil {
				return fmt.Errorf("%s:%d: contract for %s: function not found in SSA", c.File, c.Line, c.Key)
			}
			// signature check against the generated functions happens lazily at use.
			if c.View == "" {
				p.ByFunc[fn] = c
			}
			p.Contracts[path+"::"+c.Key] = c
		}
	}
	return nil
}

func (p *Program) lookupFunc(sp *ssa.Package, c *Contract) *ssa.Function {
	if c.Closure > 0 {
		cc := *c
		cc.Closure = 0
		parent := p.lookupFunc(sp, &cc)
		if parent == nil || c.Closure > len(parent.AnonFuncs) {
			return nil
		}
		return parent.AnonFuncs[c.Closure-1]
	}
	if c.RecvType == "" {
		return sp.Func(c.FuncName)
	}
	recv := strings.TrimPrefix(c.RecvType, "*")
	tn := sp.Type(recv)
	if tn == nil {
		return nil
	}
	var t types.Type = tn.Type()
	if strings.HasPrefix(c.RecvType, "*") {
		t = types.NewPointer(t)
	}
	sel := p.SSA.MethodSets.MethodSet(t).Lookup(sp.Pkg, c.FuncName)
	if sel == nil {
		return nil
	}
	return p.SSA.MethodValue(sel)
}

// externFullName resolves the key of an extern contract to the go/types full name of the
// method or function it describes, using the generated requires/ensures function's types.
func (p *Program) externFullName(sp *ssa.Package, c *Contract) (string, error) {
	if c.QualName != "" {
		// "strings.TrimPrefix" with import alias → full path
		i := strings.LastIndex(c.QualName, ".")
		alias, name := c.QualName[:i], c.QualName[i+1:]
		for _, imp := range sp.Pkg.Imports() {
			if imp.Name() == alias || imp.Path() == alias {
				return imp.Path() + "." + name, nil
			}
		}
		// search all loaded packages by name
		for path, pk := range p.AllPkgs {
			if pk.Name == alias || path == alias {
				return path + "." + name, nil
			}
		}
		return "", fmt.Errorf("extern %s: package %q not loaded", c.QualName, alias)
	}
	if c.RecvType == "" {
		return sp.Pkg.Path() + "." + c.FuncName, nil
	}
	// receiver type: resolve through any generated clause function; else through scope lookup
	rt := strings.TrimPrefix(c.RecvType, "*")
	var T types.Type
	if i := strings.LastIndex(rt, "."); i >= 0 {
		alias, name := rt[:i], rt[i+1:]
		// the package's own imports first (aliases of the contract file are imports of the overlay)
		for _, imp := range sp.Pkg.Imports() {
			if imp.Name() == alias || imp.Path() == alias || c.importAlias(p, alias) == imp.Path() {
				if o := imp.Scope().Lookup(name); o != nil {
					T = o.Type()
					break
				}
			}
		}
		if T == nil {
			for _, path := range sortedKeys(p.AllPkgs) {
				pk := p.AllPkgs[path]
				if pk.Name == alias || path == alias {
					if o := pk.Types.Scope().Lookup(name); o != nil {
						T = o.Type()
						break
					}
				}
			}
		}
	} else if o := sp.Pkg.Scope().Lookup(rt); o != nil {
		T = o.Type()
	}
	if T == nil {
		return "", fmt.Errorf("extern receiver type %s not found", c.RecvType)
	}
	if strings.HasPrefix(c.RecvType, "*") {
		T = types.NewPointer(T)
	}
	if _, isSig := T.Underlying().(*types.Signature); isSig && c.FuncName == "call" {
		// contract of calls through a named function type
		return "functype:" + types.TypeString(T, nil), nil
	}
	obj, _, _ := types.LookupFieldOrMethod(T, true, sp.Pkg, c.FuncName)
	fn, ok := obj.(*types.Func)
	if !ok {
		return "", fmt.Errorf("extern %s: no method %s", c.RecvType, c.FuncName)
	}
	return fn.FullName(), nil
}

// importAlias resolves an alias declared by `//@ import alias "path"` in the contract's package.
func (c *Contract) importAlias(p *Program, alias string) string {
	cf := p.Files[c.PkgPath]
	if cf == nil {
		return ""
	}
	for _, im := range cf.Imports {
		f := strings.Fields(im)
		if len(f) == 2 && f[0] == alias {
			return strings.Trim(f[1], `"`)
		}
	}
	return ""
}

// GenFunc returns the generated overlay function of a clause.
func (p *Program) GenFunc(c *Contract, cl *Clause) *ssa.Function {
	sp := p.SSAPkgs[c.PkgPath]
	if sp == nil {
		return nil
	}
	return sp.Func(cl.Gen)
}

// Source returns the source text between two positions (same file).
func (p *Program) Source(pos, end token.Pos) string {
	if !pos.IsValid() || !end.IsValid() {
		return ""
	}
	a, b := p.Fset.Position(pos), p.Fset.Position(end)
	data, ok := p.srcCache[a.Filename]
	if !ok {
		if ov, ok2 := p.Overlay[a.Filename]; ok2 {
			data = ov
		} else {
			data, _ = os.ReadFile(a.Filename)
		}
		p.srcCache[a.Filename] = data
	}
	if a.Offset < 0 || b.Offset > len(data) || a.Offset > b.Offset {
		return ""
	}
	return string(data[a.Offset:b.Offset])
}
