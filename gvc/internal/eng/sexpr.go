package eng

import (
	"strings"
)

// sx is a parsed S-expression: an atom (list == nil, atom set) or a list.
type sx struct {
	atom string
	list []*sx
	isL  bool
	n    int // cached text length (lists only; 0 = not computed)
}

// length of the printed form.
func (n *sx) length() int {
	if !n.isL {
		return len(n.atom)
	}
	if n.n != 0 {
		return n.n
	}
	l := 2
	for i, c := range n.list {
		if i > 0 {
			l++
		}
		l += c.length()
	}
	n.n = l
	return l
}

// mentions reports whether atom q occurs in n (cached per call through the seen map).
func (n *sx) mentions(q string, memo map[*sx]bool) bool {
	if !n.isL {
		return n.atom == q
	}
	if v, ok := memo[n]; ok {
		return v
	}
	r := false
	for _, c := range n.list {
		if c.mentions(q, memo) {
			r = true
			break
		}
	}
	memo[n] = r
	return r
}

func parseSx(s string) *sx {
	p := &sxParser{s: s}
	return p.parse()
}

type sxParser struct {
	s string
	i int
}

func (p *sxParser) skip() {
	for p.i < len(p.s) && (p.s[p.i] == ' ' || p.s[p.i] == '\n' || p.s[p.i] == '\t' || p.s[p.i] == '\r') {
		p.i++
	}
}

func (p *sxParser) parse() *sx {
	p.skip()
	if p.i >= len(p.s) {
		return nil
	}
	if p.s[p.i] == '(' {
		p.i++
		n := &sx{isL: true}
		for {
			p.skip()
			if p.i >= len(p.s) {
				return n
			}
			if p.s[p.i] == ')' {
				p.i++
				return n
			}
			c := p.parse()
			if c == nil {
				return n
			}
			n.list = append(n.list, c)
		}
	}
	start := p.i
	if p.s[p.i] == '"' {
		p.i++
		for p.i < len(p.s) {
			if p.s[p.i] == '"' {
				if p.i+1 < len(p.s) && p.s[p.i+1] == '"' {
					p.i += 2
					continue
				}
				p.i++
				break
			}
			p.i++
		}
		return &sx{atom: p.s[start:p.i]}
	}
	if p.s[p.i] == '|' {
		p.i++
		for p.i < len(p.s) && p.s[p.i] != '|' {
			p.i++
		}
		p.i++
		return &sx{atom: p.s[start:p.i]}
	}
	for p.i < len(p.s) && !strings.ContainsRune(" \n\t\r()", rune(p.s[p.i])) {
		p.i++
	}
	return &sx{atom: p.s[start:p.i]}
}

func (n *sx) String() string {
	if n == nil {
		return ""
	}
	if !n.isL {
		return n.atom
	}
	var b strings.Builder
	b.Grow(n.length())
	n.write(&b)
	return b.String()
}

func (n *sx) write(b *strings.Builder) {
	if !n.isL {
		b.WriteString(n.atom)
		return
	}

	b.WriteByte('(')
	for i, c := range n.list {
		if i > 0 {
			b.WriteByte(' ')
		}
		c.write(b)
	}
	b.WriteByte(')')
}

func (n *sx) contains(atom string) bool {
	if !n.isL {
		return n.atom == atom
	}
	for _, c := range n.list {
		if c.contains(atom) {
			return true
		}
	}
	return false
}

func (n *sx) head() string {
	if n.isL && len(n.list) > 0 && !n.list[0].isL {
		return n.list[0].atom
	}
	return ""
}

// flattenPlus lists the summands of nested (+ ...) terms.
func flattenPlus(n *sx, out *[]*sx) {
	if n.head() == "+" {
		for _, c := range n.list[1:] {
			flattenPlus(c, out)
		}
		return
	}
	*out = append(*out, n)
}

// linearIn: if idx = q + R with q occurring exactly once as a summand and not inside R,
// returns R (as text, "0" if empty) and true.
func linearIn(idx *sx, q string) (string, bool) {
	var sums []*sx
	flattenPlus(idx, &sums)
	found := 0
	var rest []string
	for _, s := range sums {
		if !s.isL && s.atom == q {
			found++
			continue
		}
		if s.contains(q) {
			return "", false
		}
		rest = append(rest, s.String())
	}
	if found != 1 {
		return "", false
	}
	switch len(rest) {
	case 0:
		return "0", true
	case 1:
		return rest[0], true
	}
	return "(+ " + strings.Join(rest, " ") + ")", true
}

// indexContexts finds the distinct index expressions (containing q, not equal to q) used
// as array/eref/str.at indices in n.
func indexContexts(n *sx, q string, seen map[string]*sx) {
	if !n.isL {
		return
	}
	h := n.head()
	var idx *sx
	switch {
	case h == "select" && len(n.list) == 3:
		idx = n.list[2]
	case h == "eref" && len(n.list) == 3:
		idx = n.list[2]
	}
	if idx != nil && idx.isL && idx.length() < 300 && idx.contains(q) {
		seen[idx.String()] = idx
	}
	for _, c := range n.list {
		indexContexts(c, q, seen)
	}
}

// substSx replaces subtrees whose text equals from by to, and afterwards atoms q by qrepl.
func substSx(n *sx, from string, to string, q, qrepl string) *sx {
	return substSxM(n, from, to, q, qrepl, map[*sx]bool{})
}

func substSxM(n *sx, from string, to string, q, qrepl string, memo map[*sx]bool) *sx {
	if n.isL && n.length() == len(from) && n.String() == from {
		return &sx{atom: to}
	}
	if n.isL && !n.mentions(q, memo) {
		return n // nothing to rewrite below (from contains q as well)
	}
	if !n.isL {
		if n.atom == q {
			return &sx{atom: qrepl}
		}
		return n
	}
	out := &sx{isL: true}
	for _, c := range n.list {
		out.list = append(out.list, substSxM(c, from, to, q, qrepl, memo))
	}
	return out
}

// shiftedVariants returns, for a quantifier body over bound variable q (sort Int), the
// bodies re-expressed over k = index expression, one per distinct linear index context.
func shiftedVariants(body string, q string, fresh func() string) []struct{ Var, Body string } {
	tree := parseSx(body)
	if tree == nil {
		return nil
	}
	ctx := map[string]*sx{}
	indexContexts(tree, q, ctx)
	var out []struct{ Var, Body string }
	var keys []string
	for k := range ctx {
		keys = append(keys, k)
	}
	sortStrings(keys)
	for _, k := range keys {
		rest, ok := linearIn(ctx[k], q)
		if !ok {
			continue
		}
		kv := fresh()
		repl := "(- " + kv + " " + rest + ")"
		if rest == "0" {
			repl = kv
		}
		nb := substSx(tree, k, kv, q, repl)
		out = append(out, struct{ Var, Body string }{kv, nb.String()})
	}
	return out
}
