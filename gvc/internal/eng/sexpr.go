package eng

import (
	"strconv"
	"strings"
)

// sx is a parsed S-expression: an atom (list == nil, atom set) or a list.
type sx struct {
	atom string
	list []*sx
	isL  bool
	n    int // cached text length (lists only; 0 = not computed)
}

// length of the printed form.
func (n *sx) length() int {
	if !n.isL {
		return len(n.atom)
	}
	if n.n != 0 {
		return n.n
	}
	l := 2
	for i, c := range n.list {
		if i > 0 {
			l++
		}
		l += c.length()
	}
	n.n = l
	return l
}

// mentions reports whether atom q occurs in n (cached per call through the seen map).
func (n *sx) mentions(q string, memo map[*sx]bool) bool {
	if !n.isL {
		return n.atom == q
	}
	if v, ok := memo[n]; ok {
		return v
	}
	r := false
	for _, c := range n.list {
		if c.mentions(q, memo) {
			r = true
			break
		}
	}
	memo[n] = r
	return r
}

func parseSx(s string) *sx {
	p := &sxParser{s: s}
	return p.parse()
}

type sxParser struct {
	s string
	i int
}

func (p *sxParser) skip() {
	for p.i < len(p.s) && (p.s[p.i] == ' ' || p.s[p.i] == '\n' || p.s[p.i] == '\t' || p.s[p.i] == '\r') {
		p.i++
	}
}

func (p *sxParser) parse() *sx {
	p.skip()
	if p.i >= len(p.s) {
		return nil
	}
	if p.s[p.i] == '(' {
		p.i++
		n := &sx{isL: true}
		for {
			p.skip()
			if p.i >= len(p.s) {
				return n
			}
			if p.s[p.i] == ')' {
				p.i++
				return n
			}
			c := p.parse()
			if c == nil {
				return n
			}
			n.list = append(n.list, c)
		}
	}
	start := p.i
	if p.s[p.i] == '"' {
		p.i++
		for p.i < len(p.s) {
			if p.s[p.i] == '"' {
				if p.i+1 < len(p.s) && p.s[p.i+1] == '"' {
					p.i += 2
					continue
				}
				p.i++
				break
			}
			p.i++
		}
		return &sx{atom: p.s[start:p.i]}
	}
	if p.s[p.i] == '|' {
		p.i++
		for p.i < len(p.s) && p.s[p.i] != '|' {
			p.i++
		}
		p.i++
		return &sx{atom: p.s[start:p.i]}
	}
	for p.i < len(p.s) && !strings.ContainsRune(" \n\t\r()", rune(p.s[p.i])) {
		p.i++
	}
	return &sx{atom: p.s[start:p.i]}
}

func (n *sx) String() string {
	if n == nil {
		return ""
	}
	if !n.isL {
		return n.atom
	}
	var b strings.Builder
	b.Grow(n.length())
	n.write(&b)
	return b.String()
}

func (n *sx) write(b *strings.Builder) {
	if !n.isL {
		b.WriteString(n.atom)
		return
	}

	b.WriteByte('(')
	for i, c := range n.list {
		if i > 0 {
			b.WriteByte(' ')
		}
		c.write(b)
	}
	b.WriteByte(')')
}

func (n *sx) contains(atom string) bool {
	if !n.isL {
		return n.atom == atom
	}
	for _, c := range n.list {
		if c.contains(atom) {
			return true
		}
	}
	return false
}

func (n *sx) head() string {
	if n.isL && len(n.list) > 0 && !n.list[0].isL {
		return n.list[0].atom
	}
	return ""
}

// flattenPlus lists the summands of nested (+ ...) terms.
func flattenPlus(n *sx, out *[]*sx) {
	if n.head() == "+" {
		for _, c := range n.list[1:] {
			flattenPlus(c, out)
		}
		return
	}
	*out = append(*out, n)
}

// linearIn: if idx = q + R with q occurring exactly once as a summand and not inside R,
// returns R (as text, "0" if empty) and true.
func linearIn(idx *sx, q string) (string, bool) {
	var sums []*sx
	flattenPlus(idx, &sums)
	found := 0
	var rest []string
	for _, s := range sums {
		if !s.isL && s.atom == q {
			found++
			continue
		}
		if s.contains(q) {
			return "", false
		}
		rest = append(rest, s.String())
	}
	if found != 1 {
		return "", false
	}
	switch len(rest) {
	case 0:
		return "0", true
	case 1:
		return rest[0], true
	}
	return "(+ " + strings.Join(rest, " ") + ")", true
}

// indexContexts finds the distinct index expressions (containing q, not equal to q) used
// as array/eref/str.at indices in n.
func indexContexts(n *sx, q string, seen map[string]*sx) {
	if !n.isL {
		return
	}
	h := n.head()
	var idx *sx
	switch {
	case h == "select" && len(n.list) == 3:
		idx = n.list[2]
	case h == "eref" && len(n.list) == 3:
		idx = n.list[2]
	}
	if idx != nil && idx.isL && idx.length() < 3000 && idx.contains(q) {
		seen[idx.String()] = idx
	}
	for _, c := range n.list {
		indexContexts(c, q, seen)
	}
}

// substSx replaces subtrees whose text equals from by to, and afterwards atoms q by qrepl.
func substSx(n *sx, from string, to string, q, qrepl string) *sx {
	return substSxM(n, from, to, q, qrepl, map[*sx]bool{})
}

func substSxM(n *sx, from string, to string, q, qrepl string, memo map[*sx]bool) *sx {
	if n.isL && n.length() == len(from) && n.String() == from {
		return &sx{atom: to}
	}
	if n.isL && !n.mentions(q, memo) {
		return n // nothing to rewrite below (from contains q as well)
	}
	if !n.isL {
		if n.atom == q {
			return &sx{atom: qrepl}
		}
		return n
	}
	out := &sx{isL: true}
	for _, c := range n.list {
		out.list = append(out.list, substSxM(c, from, to, q, qrepl, memo))
	}
	return out
}

// shiftedVariants returns, for a quantifier body over bound variable q (sort Int), the
// bodies re-expressed over k = index expression, one per distinct linear index context.
func shiftedVariants(body string, q string, fresh func() string) []struct{ Var, Body string } {
	tree := parseSx(body)
	if tree == nil {
		return nil
	}
	ctx := map[string]*sx{}
	indexContexts(tree, q, ctx)
	var out []struct{ Var, Body string }
	var keys []string
	for k := range ctx {
		keys = append(keys, k)
	}
	sortStrings(keys)
	for _, k := range keys {
		rest, ok := linearIn(ctx[k], q)
		if !ok {
			continue
		}
		kv := fresh()
		repl := "(- " + kv + " " + rest + ")"
		if rest == "0" {
			repl = kv
		}
		nb := substSx(tree, k, kv, q, repl)
		out = append(out, struct{ Var, Body string }{kv, nb.String()})
	}
	return out
}

// ---------------------------------------------------------------------------------------------
// Contextual Boolean simplification.
//
// Spec expressions are Go: `a && b ==> c` reaches the engine as control flow, and the merged
// term repeats every guard in every later disjunct:
//     (or (not A) (or (and A (not B)) (or (and (and A B) (not R)) E)))
// which is ¬A ∨ ¬B ∨ ¬R ∨ E.  The solvers do not simplify this by themselves and every
// quantifier instance then costs a handful of case splits.  ctxSimplify rewrites a formula
// into an equivalent one using what the enclosing and/or/=>/ite structure already decides
// (later disjuncts are read assuming the earlier ones false, later conjuncts assuming the
// earlier ones true).  Only equivalences are used, so the polarity of the position is irrelevant.

type simpCtx struct {
	facts  map[int]bool
	memo   map[*sx]int
	intern map[string]int
}

// key returns a small integer identifying the text of n (texts are interned once, so that
// copying and probing the fact maps does not hash formula-sized strings).
func (c *simpCtx) key(n *sx) int {
	if n.isL {
		if id, ok := c.memo[n]; ok {
			return id
		}
	}
	var s string
	if n.isL {
		// hash-consing: a list is identified by the identifiers of its children
		var b strings.Builder
		b.WriteByte('(')
		for _, ch := range n.list {
			b.WriteString(strconv.Itoa(c.key(ch)))
			b.WriteByte(' ')
		}
		s = b.String()
	} else {
		s = n.atom
	}
	id, ok := c.intern[s]
	if !ok {
		id = len(c.intern) + 1
		c.intern[s] = id
	}
	if n.isL {
		c.memo[n] = id
	}
	return id
}

var sxTrue, sxFalse = &sx{atom: "true"}, &sx{atom: "false"}

func isTrueSx(n *sx) bool  { return !n.isL && n.atom == "true" }
func isFalseSx(n *sx) bool { return !n.isL && n.atom == "false" }

func (c *simpCtx) clone() *simpCtx {
	f := make(map[int]bool, len(c.facts)+4)
	for k, v := range c.facts {
		f[k] = v
	}
	return &simpCtx{facts: f, memo: c.memo, intern: c.intern}
}

// assume records that n has truth value val.
func (c *simpCtx) assume(n *sx, val bool) {
	if !n.isL {
		if n.atom != "true" && n.atom != "false" {
			c.facts[c.key(n)] = val
		}
		return
	}
	switch n.head() {
	case "not":
		if len(n.list) == 2 {
			c.assume(n.list[1], !val)
			return
		}
	case "and":
		if val {
			for _, ch := range n.list[1:] {
				c.assume(ch, true)
			}
		} else {
			// unit: all conjuncts but one known true
			var open *sx
			cnt := 0
			for _, ch := range n.list[1:] {
				if v, ok := c.lookup(ch); ok && v {
					continue
				}
				open = ch
				cnt++
			}
			if cnt == 1 {
				c.assume(open, false)
			}
		}
	case "or":
		if !val {
			for _, ch := range n.list[1:] {
				c.assume(ch, false)
			}
		} else {
			var open *sx
			cnt := 0
			for _, ch := range n.list[1:] {
				if v, ok := c.lookup(ch); ok && !v {
					continue
				}
				open = ch
				cnt++
			}
			if cnt == 1 {
				c.assume(open, true)
			}
		}
	}
	c.facts[c.key(n)] = val
}

func (c *simpCtx) lookup(n *sx) (bool, bool) {
	if isTrueSx(n) {
		return true, true
	}
	if isFalseSx(n) {
		return false, true
	}
	if n.isL && n.head() == "not" && len(n.list) == 2 {
		v, ok := c.lookup(n.list[1])
		return !v, ok
	}
	v, ok := c.facts[c.key(n)]
	return v, ok
}

func mkNot(n *sx) *sx {
	if isTrueSx(n) {
		return sxFalse
	}
	if isFalseSx(n) {
		return sxTrue
	}
	if n.isL && n.head() == "not" && len(n.list) == 2 {
		return n.list[1]
	}
	return &sx{isL: true, list: []*sx{{atom: "not"}, n}}
}

func (c *simpCtx) simp(n *sx) *sx {
	if v, ok := c.lookup(n); ok && (n.isL || (n.atom != "true" && n.atom != "false")) {
		if v {
			return sxTrue
		}
		return sxFalse
	}
	if !n.isL || len(n.list) == 0 {
		return n
	}
	switch n.head() {
	case "not":
		if len(n.list) == 2 {
			return mkNot(c.simp(n.list[1]))
		}
	case "and", "or":
		isAnd := n.head() == "and"
		loc := c.clone()
		var out []*sx
		for _, ch := range n.list[1:] {
			s := loc.simp(ch)
			if isAnd {
				if isFalseSx(s) {
					return sxFalse
				}
				if isTrueSx(s) {
					continue
				}
				// flatten
				if s.isL && s.head() == "and" {
					out = append(out, s.list[1:]...)
				} else {
					out = append(out, s)
				}
				loc.assume(s, true)
			} else {
				if isTrueSx(s) {
					return sxTrue
				}
				if isFalseSx(s) {
					continue
				}
				if s.isL && s.head() == "or" {
					out = append(out, s.list[1:]...)
				} else {
					out = append(out, s)
				}
				loc.assume(s, false)
			}
		}
		if len(out) == 0 {
			if isAnd {
				return sxTrue
			}
			return sxFalse
		}
		if len(out) == 1 {
			return out[0]
		}
		return &sx{isL: true, list: append([]*sx{n.list[0]}, out...)}
	case "=>":
		if len(n.list) >= 3 {
			loc := c.clone()
			var ants []*sx
			for _, a := range n.list[1 : len(n.list)-1] {
				s := loc.simp(a)
				if isFalseSx(s) {
					return sxTrue
				}
				if isTrueSx(s) {
					continue
				}
				ants = append(ants, s)
				loc.assume(s, true)
			}
			cons := loc.simp(n.list[len(n.list)-1])
			if isTrueSx(cons) {
				return sxTrue
			}
			if len(ants) == 0 {
				return cons
			}
			if isFalseSx(cons) && len(ants) == 1 {
				return mkNot(ants[0])
			}
			return &sx{isL: true, list: append(append([]*sx{n.list[0]}, ants...), cons)}
		}
	case "ite":
		if len(n.list) == 4 {
			cond := c.simp(n.list[1])
			if isTrueSx(cond) {
				return c.simp(n.list[2])
			}
			if isFalseSx(cond) {
				return c.simp(n.list[3])
			}
			lt := c.clone()
			lt.assume(cond, true)
			lf := c.clone()
			lf.assume(cond, false)
			return &sx{isL: true, list: []*sx{n.list[0], cond, lt.simp(n.list[2]), lf.simp(n.list[3])}}
		}
	case "forall", "exists":
		if len(n.list) == 3 {
			b := c.simp(n.list[2])
			if isTrueSx(b) || isFalseSx(b) {
				return b // Int/Ref/... domains are non-empty
			}
			return &sx{isL: true, list: []*sx{n.list[0], n.list[1], b}}
		}
	case "!":
		if len(n.list) >= 2 {
			b := c.simp(n.list[1])
			if isTrueSx(b) || isFalseSx(b) {
				return b
			}
			return &sx{isL: true, list: append([]*sx{n.list[0], b}, n.list[2:]...)}
		}
	case "let":
		return n // bound names: leave alone
	}
	// any other application: simplify Boolean sub-terms (ite conditions, nested formulas)
	changed := false
	out := make([]*sx, len(n.list))
	out[0] = n.list[0]
	for i, ch := range n.list[1:] {
		s := ch
		if ch.isL {
			s = c.simp(ch)
		}
		if s != ch {
			changed = true
		}
		out[i+1] = s
	}
	if !changed {
		return n
	}
	return &sx{isL: true, list: out}
}

// ctxSimplify simplifies the formula text s (an S-expression of sort Bool).
func ctxSimplify(s string) string {
	if len(s) < 40 || (!strings.Contains(s, "(or ") && !strings.Contains(s, "(and ") && !strings.Contains(s, "(=> ")) {
		return s
	}
	tree := parseSx(s)
	if tree == nil {
		return s
	}
	c := &simpCtx{facts: map[int]bool{}, memo: map[*sx]int{}, intern: map[string]int{}}
	return c.simp(tree).String()
}
