package eng

// Contract comments: parsing of the `//@` language kept in comment-only, build-tagged
// files next to the code (see DESIGN.md §2.2).  The expression language is Go plus a little
// sugar; every clause is turned into a Go function in a generated overlay file of the same
// package, so it is type-checked by go/types and lowered by go/ssa exactly like the code
// it talks about.

import (
	"fmt"
	"go/ast"
	"go/parser"
	"go/token"
	"os"
	"regexp"
	"sort"
	"strconv"
	"strings"
)

// Clause is one requires/ensures/invariant/... line of a contract.
type Clause struct {
	Kind  string // requires | ensures | invariant | decreases | modifies | effect | assert
	Label string
	Expr  string // raw text
	Loop  int    // for invariant/decreases: loop ordinal (1-based); 0 otherwise
	File  string
	Line  int
	Gen   string // name of the generated overlay function
	// Broken: the clause no longer applies to the code (its loop is gone, a local it names was
	// removed, it no longer type-checks).  Loop clauses are then dropped (their obligations
	// vanish and what depended on them fails); any other clause makes the function undecidable.
	Broken string
	Common bool // loop invariant inherited by the views of the function
	// filled in phase 1 for loop clauses: the free local identifiers (name, type string)
	Locals []LocalRef
}

// LocalRef is a function-local variable mentioned by a loop clause.
type LocalRef struct {
	Entry bool // entry value of the parameter called Name[len("gvcentry_"):]
	ParamIdx int // when >= 0 with Entry: positional parameter (receiver first) named by the contract header
	Name string
	Type string
	Pos  token.Pos // declaration position in the phase-1 fileset
	Decl token.Position
}

// Contract is the set of clauses for one function (or one extern).
type Contract struct {
	PkgPath string
	Extern  bool
	Header  string // Go signature text as written
	Key     string // canonical key: "(*T).M", "F", or for externs "(pkg/path.I).M" / "pkg/path.F"
	ID      string // sanitized identifier used in generated names
	Inline  bool
	Pure    bool
	Trusted bool // contract is assumed at call sites but the body is not verified (reported)
	Clauses []*Clause
	File    string
	Line    int

	// parsed header
	RecvName, RecvType string
	View               string // non-empty: an additional, separately verified contract of the function
	Closure            int // >0: the contract is about the N-th function literal of FuncName
	Params             []Param
	Results            []Param
	QualName           string // for externs on package functions: "strings.TrimPrefix"
	FuncName           string
	TypeParams         string // "[F File]" for generic functions, "" otherwise
}

// Param is a name/type pair from a contract header.
type Param struct {
	Name, Type string
	Variadic   bool
}

// ContractFile is the parsed content of one `//@` file for one package.
type ContractFile struct {
	PkgPath   string
	Imports   []string // raw import specs: `alias "path"` or `"path"`
	Ghosts    []string // raw "name Type [= expr]"
	SpecLines []string // verbatim Go
	Recs      []string // names of recursive spec functions
	Contracts []*Contract
	Lemmas    []*Lemma
}

// Lemma is a spec-level statement proved from its premises only.
type Lemma struct {
	Name    string
	Params  []Param
	Header  string
	Clauses []*Clause
	File    string
	Line    int
}

var keywordRe = regexp.MustCompile(`^(requires|ensures|modifies|loop|inline|pure|trusted|effect|func|extern|ghost|spec|import|decreases|assert|lemma|rec)\b`)
var labelRe = regexp.MustCompile(`^([A-Za-z][A-Za-z0-9_-]*):\s+`)

// ParseContractFile reads all `//@` lines of path.
func ParseContractFile(path, pkgPath string) (*ContractFile, error) {
	data, err := os.ReadFile(path)
	if err != nil {
		return nil, err
	}
	cf := &ContractFile{PkgPath: pkgPath}
	var cur *Contract
	var curLemma *Lemma
	var last *Clause // for continuation lines
	lines := strings.Split(string(data), "\n")
	for ln, raw := range lines {
		t := strings.TrimSpace(raw)
		if !strings.HasPrefix(t, "//@") {
			if t == "" || strings.HasPrefix(t, "//") {
				continue
			}
			continue
		}
		body := strings.TrimPrefix(t, "//@")
		txt := strings.TrimSpace(body)
		if txt == "" {
			continue
		}
		if strings.HasPrefix(txt, "//") { // comment inside contract
			continue
		}
		kw := keywordRe.FindString(txt)
		if kw == "" {
			if last == nil {
				return nil, fmt.Errorf("%s:%d: continuation line without clause", path, ln+1)
			}
			last.Expr += "\n" + txt
			continue
		}
		rest := strings.TrimSpace(txt[len(kw):])
		newClause := func(kind string, loop int, text string) *Clause {
			c := &Clause{Kind: kind, Loop: loop, File: path, Line: ln + 1}
			if m := labelRe.FindStringSubmatch(text); m != nil && kind != "effect" && kind != "modifies" {
				c.Label = m[1]
				text = text[len(m[0]):]
			}
			c.Expr = text
			return c
		}
		switch kw {
		case "import":
			cf.Imports = append(cf.Imports, rest)
			last = nil
		case "rec":
			// `rec name` or `rec name fuel`
			fs := strings.Fields(rest)
			if len(fs) == 2 && fs[1] == "fuel" {
				cf.Recs = append(cf.Recs, fs[0]+":fuel")
			} else {
				cf.Recs = append(cf.Recs, fs...)
			}
			last = nil
		case "ghost":
			rest = strings.TrimSpace(strings.TrimPrefix(rest, "var"))
			cf.Ghosts = append(cf.Ghosts, rest)
			last = nil
		case "spec":
			// verbatim line; keep indentation after "spec "
			i := strings.Index(body, "spec")
			v := body[i+4:]
			if strings.HasPrefix(v, " ") {
				v = v[1:]
			}
			cf.SpecLines = append(cf.SpecLines, v)
			last = nil
		case "func", "extern":
			hdr := rest
			ext := kw == "extern"
			if ext {
				hdr = strings.TrimSpace(strings.TrimPrefix(hdr, "func"))
			}
			c := &Contract{PkgPath: pkgPath, Extern: ext, Header: hdr, File: path, Line: ln + 1}
			if err := c.parseHeader(); err != nil {
				return nil, fmt.Errorf("%s:%d: %v", path, ln+1, err)
			}
			cf.Contracts = append(cf.Contracts, c)
			cur, curLemma, last = c, nil, nil
		case "lemma":
			l := &Lemma{Header: rest, File: path, Line: ln + 1}
			if err := l.parseHeader(); err != nil {
				return nil, fmt.Errorf("%s:%d: %v", path, ln+1, err)
			}
			cf.Lemmas = append(cf.Lemmas, l)
			cur, curLemma, last = nil, l, nil
		case "inline", "pure", "trusted":
			if cur == nil {
				return nil, fmt.Errorf("%s:%d: %s outside contract", path, ln+1, kw)
			}
			switch kw {
			case "inline":
				cur.Inline = true
			case "pure":
				cur.Pure = true
			case "trusted":
				cur.Trusted = true
			}
			last = nil
		case "loop":
			if cur == nil {
				return nil, fmt.Errorf("%s:%d: loop outside contract", path, ln+1)
			}
			var n int
			var kind string
			f := strings.Fields(rest)
			if len(f) < 2 || len(f) < 3 && f[1] != "localwrites" && f[1] != "freshwrites" {
				return nil, fmt.Errorf("%s:%d: malformed loop clause", path, ln+1)
			}
			if _, err := fmt.Sscanf(f[0], "%d", &n); err != nil {
				return nil, fmt.Errorf("%s:%d: loop ordinal: %v", path, ln+1, err)
			}
			kind = f[1]
			if kind == "localwrites" || kind == "freshwrites" {
				cur.Clauses = append(cur.Clauses, &Clause{Kind: kind, Loop: n, File: path, Line: ln + 1})
				last = nil
				continue
			}
			common := false
			if kind == "common" {
				// an invariant shared with the views of this function
				common = true
			}
			if kind != "invariant" && kind != "decreases" && kind != "common" {
				return nil, fmt.Errorf("%s:%d: loop clause kind %q", path, ln+1, kind)
			}
			text := strings.TrimSpace(rest[strings.Index(rest, kind)+len(kind):])
			if common {
				kind = "invariant"
			}
			c := newClause(kind, n, text)
			c.Common = common
			cur.Clauses = append(cur.Clauses, c)
			last = c
		default: // requires ensures modifies effect decreases assert
			c := newClause(kw, 0, rest)
			if curLemma != nil {
				curLemma.Clauses = append(curLemma.Clauses, c)
			} else if cur != nil {
				cur.Clauses = append(cur.Clauses, c)
			} else {
				return nil, fmt.Errorf("%s:%d: %s outside contract", path, ln+1, kw)
			}
			last = c
		}
	}
	return cf, nil
}

var qualFuncRe = regexp.MustCompile(`^([A-Za-z_][A-Za-z0-9_/.\-]*)\.([A-Za-z_][A-Za-z0-9_]*)\s*(\[[^\]]*\])?\(`)

func (c *Contract) parseHeader() error {
	hdr := c.Header
	// extern on a package-level function of another package: "strings.TrimPrefix(s, p string) (r string)"
	if !strings.HasPrefix(hdr, "(") {
		if m := qualFuncRe.FindStringSubmatch(hdr); m != nil {
			c.QualName = m[1] + "." + m[2]
			hdr = m[2] + hdr[len(m[1])+1+len(m[2]):]
		}
	}
	src := "package p\nfunc " + hdr + " {}"
	fset := token.NewFileSet()
	f, err := parser.ParseFile(fset, "hdr.go", src, 0)
	if err != nil {
		return fmt.Errorf("contract header %q: %v", c.Header, err)
	}
	fd := f.Decls[0].(*ast.FuncDecl)
	text := func(n ast.Node) string { return src[fset.Position(n.Pos()).Offset:fset.Position(n.End()).Offset] }
	c.FuncName = fd.Name.Name
	if m := viewRe.FindStringSubmatch(c.FuncName); m != nil {
		// F__view_NAME: a further contract for F, verified on its own (its obligations are named
		// F@NAME#…).  It inherits the requires / modifies / localwrites / freshwrites clauses and
		// the invariants marked `common` of F's primary contract; callers use the primary only.
		c.FuncName = m[1]
		c.View = m[2]
	}
	if m := closureRe.FindStringSubmatch(c.FuncName); m != nil {
		// F__closureN: the N-th function literal (source order) directly inside F; a
		// receiver in the header names the captured receiver of the enclosing method
		c.FuncName = m[1]
		c.Closure, _ = strconv.Atoi(m[2])
	}
	if fd.Type.TypeParams != nil {
		c.TypeParams = "[" + src[fset.Position(fd.Type.TypeParams.Opening).Offset+1:fset.Position(fd.Type.TypeParams.Closing).Offset] + "]"
	}
	if fd.Recv != nil && len(fd.Recv.List) == 1 {
		r := fd.Recv.List[0]
		c.RecvType = text(r.Type)
		if len(r.Names) == 1 {
			c.RecvName = r.Names[0].Name
		} else {
			c.RecvName = "recv"
		}
	}
	fill := func(fl *ast.FieldList, pfx string) []Param {
		var ps []Param
		if fl == nil {
			return nil
		}
		n := 0
		for _, fld := range fl.List {
			ty := text(fld.Type)
			variadic := false
			if e, ok := fld.Type.(*ast.Ellipsis); ok {
				ty = "[]" + text(e.Elt)
				variadic = true
			}
			if len(fld.Names) == 0 {
				ps = append(ps, Param{Name: fmt.Sprintf("%s%d", pfx, n), Type: ty, Variadic: variadic})
				n++
				continue
			}
			for _, nm := range fld.Names {
				name := nm.Name
				if name == "_" {
					name = fmt.Sprintf("%s%d", pfx, n)
				}
				ps = append(ps, Param{Name: name, Type: ty, Variadic: variadic})
				n++
			}
		}
		return ps
	}
	c.Params = fill(fd.Type.Params, "p")
	c.Results = fill(fd.Type.Results, "res")
	switch {
	case c.QualName != "":
		c.Key = c.QualName
	case c.RecvType != "":
		c.Key = "(" + c.RecvType + ")." + c.FuncName
	default:
		c.Key = c.FuncName
	}
	if c.Closure > 0 {
		c.Key += fmt.Sprintf("$%d", c.Closure)
	}
	if c.View != "" {
		c.Key += "@" + c.View
	}
	c.ID = sanitize(c.Key)
	return nil
}

var viewRe = regexp.MustCompile(`^(\w+)__view_(\w+)$`)
var closureRe = regexp.MustCompile(`^(\w+)__closure([1-9])$`)

func (l *Lemma) parseHeader() error {
	src := "package p\nfunc " + l.Header + " {}"
	fset := token.NewFileSet()
	f, err := parser.ParseFile(fset, "hdr.go", src, 0)
	if err != nil {
		return fmt.Errorf("lemma header %q: %v", l.Header, err)
	}
	fd := f.Decls[0].(*ast.FuncDecl)
	text := func(n ast.Node) string { return src[fset.Position(n.Pos()).Offset:fset.Position(n.End()).Offset] }
	l.Name = fd.Name.Name
	for _, fld := range fd.Type.Params.List {
		for _, nm := range fld.Names {
			l.Params = append(l.Params, Param{Name: nm.Name, Type: text(fld.Type)})
		}
	}
	return nil
}

func sanitize(s string) string {
	var b strings.Builder
	for _, r := range s {
		switch {
		case r >= 'a' && r <= 'z', r >= 'A' && r <= 'Z', r >= '0' && r <= '9':
			b.WriteRune(r)
		case r == '*':
			b.WriteString("P")
		case r == '.', r == '/', r == '_':
			b.WriteRune('_')
		}
	}
	return b.String()
}

// ---------------------------------------------------------------------------------------------
// Sugar: ==> , <==> , (forall x T :: e) , (exists x T :: e) , old(e) / old[T](e)

// Desugar rewrites the spec sugar of e into plain Go.  oldType resolves the type of an
// old(...) argument when it is not given explicitly (may be nil).
func Desugar(e string, oldType func(arg string) (string, error)) (string, error) {
	e = strings.TrimSpace(e)
	// 1. quantifiers and old(): innermost-first scan over parenthesised groups.
	out, err := desugarGroups(e, oldType)
	if err != nil {
		return "", err
	}
	return desugarImplies(out)
}

// splitTop splits s at top-level occurrences of sep (outside (), [], {}, strings).
func splitTop(s, sep string) []string {
	var parts []string
	depth := 0
	start := 0
	inStr := byte(0)
	for i := 0; i < len(s); i++ {
		ch := s[i]
		if inStr != 0 {
			if ch == '\\' && inStr != '`' {
				i++
				continue
			}
			if ch == inStr {
				inStr = 0
			}
			continue
		}
		switch ch {
		case '"', '`', '\'':
			inStr = ch
		case '(', '[', '{':
			depth++
		case ')', ']', '}':
			depth--
		default:
			if depth == 0 && strings.HasPrefix(s[i:], sep) {
				// do not split "<==>" when looking for "==>"
				if sep == "==>" && i > 0 && s[i-1] == '<' {
					continue
				}
				parts = append(parts, s[start:i])
				start = i + len(sep)
				i += len(sep) - 1
			}
		}
	}
	parts = append(parts, s[start:])
	return parts
}

func desugarImplies(s string) (string, error) {
	// lowest precedence: <==> then ==> (right associative)
	if ps := splitTop(s, "<==>"); len(ps) > 1 {
		if len(ps) != 2 {
			return "", fmt.Errorf("chained <==> in %q", s)
		}
		a, err := desugarImplies(ps[0])
		if err != nil {
			return "", err
		}
		b, err := desugarImplies(ps[1])
		if err != nil {
			return "", err
		}
		return "((" + a + ") == (" + b + "))", nil
	}
	ps := splitTop(s, "==>")
	if len(ps) == 1 {
		return desugarInner(s)
	}
	a, err := desugarInner(ps[0])
	if err != nil {
		return "", err
	}
	b, err := desugarImplies(strings.Join(ps[1:], "==>"))
	if err != nil {
		return "", err
	}
	return "(!(" + a + ") || (" + b + "))", nil
}

// desugarInner handles ==> nested inside parentheses of s.
func desugarInner(s string) (string, error) {
	var b strings.Builder
	i := 0
	for i < len(s) {
		ch := s[i]
		if ch == '"' || ch == '`' || ch == '\'' {
			j := skipString(s, i)
			b.WriteString(s[i:j])
			i = j
			continue
		}
		if ch == '(' || ch == '[' || ch == '{' {
			j := matchClose(s, i)
			if j < 0 {
				return "", fmt.Errorf("unbalanced %q in %q", string(ch), s)
			}
			inner, err := desugarImplies(s[i+1 : j])
			if err != nil {
				return "", err
			}
			b.WriteByte(ch)
			b.WriteString(inner)
			b.WriteByte(s[j])
			i = j + 1
			continue
		}
		b.WriteByte(ch)
		i++
	}
	return b.String(), nil
}

func skipString(s string, i int) int {
	q := s[i]
	j := i + 1
	for j < len(s) {
		if s[j] == '\\' && q != '`' {
			j += 2
			continue
		}
		if s[j] == q {
			return j + 1
		}
		j++
	}
	return len(s)
}

func matchClose(s string, i int) int {
	depth := 0
	for j := i; j < len(s); j++ {
		switch s[j] {
		case '"', '`', '\'':
			j = skipString(s, j) - 1
		case '(', '[', '{':
			depth++
		case ')', ']', '}':
			depth--
			if depth == 0 {
				return j
			}
		}
	}
	return -1
}

// oldArgRewrite, when set, rewrites the argument text of every old(...) (loop clauses: the
// function's parameters inside old() denote their entry values, not the current ones).
var oldArgRewrite func(string) string

var quantRe = regexp.MustCompile(`^\(\s*(forall|exists|some)\s+`)
var oldRe = regexp.MustCompile(`\bold\s*(\[[^\]]+\])?\s*\($`)

// desugarGroups rewrites quantifier groups and old() calls, recursively.
func desugarGroups(s string, oldType func(string) (string, error)) (string, error) {
	var b strings.Builder
	i := 0
	for i < len(s) {
		ch := s[i]
		if ch == '"' || ch == '`' || ch == '\'' {
			j := skipString(s, i)
			b.WriteString(s[i:j])
			i = j
			continue
		}
		if ch == '(' {
			j := matchClose(s, i)
			if j < 0 {
				return "", fmt.Errorf("unbalanced ( in %q", s)
			}
			grp := s[i : j+1]
			if m := quantRe.FindStringSubmatch(grp); m != nil {
				body := grp[len(m[0]) : len(grp)-1]
				k := strings.Index(body, "::")
				if k < 0 {
					return "", fmt.Errorf("quantifier without :: in %q", grp)
				}
				vars := strings.Split(body[:k], ",")
				ot := oldType
				if oldType != nil {
					vs := vars
					ot = func(arg string) (string, error) {
						for _, v := range vs {
							f := strings.Fields(strings.TrimSpace(v))
							if len(f) >= 2 {
								re := regexp.MustCompile(`\b` + regexp.QuoteMeta(f[0]) + `\b`)
								arg = re.ReplaceAllString(arg, "(*new("+strings.Join(f[1:], " ")+"))")
							}
						}
						return oldType(arg)
					}
				}
				inner, err := desugarGroups(strings.TrimSpace(body[k+2:]), ot)
				if err != nil {
					return "", err
				}
				inner, err = desugarImplies(inner)
				if err != nil {
					return "", err
				}
				fn := "GvcForall"
				if m[1] == "exists" {
					fn = "GvcExists"
				}
				if m[1] == "some" {
					// an existential that, where it is assumed, is skolemised as written (one
					// witness, eagerly); for facts that are not half of a forall-exists pair
					fn = "GvcSome"
				}
				res := inner
				for vi := len(vars) - 1; vi >= 0; vi-- {
					f := strings.Fields(strings.TrimSpace(vars[vi]))
					if len(f) < 2 {
						return "", fmt.Errorf("quantified variable needs a type: %q", vars[vi])
					}
					res = fmt.Sprintf("%s(func(%s %s) bool { return %s })", fn, f[0], strings.Join(f[1:], " "), res)
				}
				b.WriteString(res)
				i = j + 1
				continue
			}
			// old( ... ) ?
			prefix := b.String()
			if m := oldRe.FindStringSubmatch(prefix + "("); m != nil {
				arg, err := desugarGroups(s[i+1:j], oldType)
				if err != nil {
					return "", err
				}
				arg, err = desugarImplies(arg)
				if err != nil {
					return "", err
				}
				ty := ""
				if m[1] != "" {
					ty = strings.TrimSpace(m[1][1 : len(m[1])-1])
				} else if oldType != nil {
					ty, err = oldType(arg)
					if err != nil {
						return "", fmt.Errorf("old(%s): cannot infer type (%v); write old[T](...)", arg, err)
					}
				} else {
					return "", fmt.Errorf("old(%s): type needed, write old[T](...)", arg)
				}
				if oldArgRewrite != nil {
					arg = oldArgRewrite(arg)
				}
				// cut "old" / "old[T]" from the prefix
				loc := oldRe.FindStringIndex(prefix + "(")
				b.Reset()
				b.WriteString(prefix[:loc[0]])
				b.WriteString(fmt.Sprintf("GvcOld(func() %s { return %s })", ty, arg))
				i = j + 1
				continue
			}
			inner, err := desugarGroups(s[i+1:j], oldType)
			if err != nil {
				return "", err
			}
			b.WriteString("(" + inner + ")")
			i = j + 1
			continue
		}
		b.WriteByte(ch)
		i++
	}
	return b.String(), nil
}

// FreeIdents returns the identifiers of a (desugared) Go expression that are not selector
// fields, not declared inside it (func-literal params), in order of first appearance.
func FreeIdents(expr string) ([]string, error) {
	e, err := parser.ParseExpr(expr)
	if err != nil {
		return nil, fmt.Errorf("parse %q: %v", expr, err)
	}
	seen := map[string]bool{}
	var out []string
	var walk func(n ast.Node, bound map[string]bool)
	walk = func(n ast.Node, bound map[string]bool) {
		switch x := n.(type) {
		case nil:
			return
		case *ast.Ident:
			if !bound[x.Name] && !seen[x.Name] {
				seen[x.Name] = true
				out = append(out, x.Name)
			}
		case *ast.SelectorExpr:
			walk(x.X, bound)
		case *ast.KeyValueExpr:
			// struct literal keys are field names; map keys are expressions; be conservative: walk value only when key is ident
			if _, ok := x.Key.(*ast.Ident); !ok {
				walk(x.Key, bound)
			}
			walk(x.Value, bound)
		case *ast.FuncLit:
			nb := map[string]bool{}
			for k, v := range bound {
				nb[k] = v
			}
			for _, f := range x.Type.Params.List {
				for _, nm := range f.Names {
					nb[nm.Name] = true
				}
				walk(f.Type, bound)
			}
			if x.Type.Results != nil {
				for _, f := range x.Type.Results.List {
					for _, nm := range f.Names {
						nb[nm.Name] = true
					}
					walk(f.Type, bound)
				}
			}
			// statements: collect := declared names conservatively as bound
			ast.Inspect(x.Body, func(m ast.Node) bool {
				if as, ok := m.(*ast.AssignStmt); ok && as.Tok == token.DEFINE {
					for _, l := range as.Lhs {
						if id, ok := l.(*ast.Ident); ok {
							nb[id.Name] = true
						}
					}
				}
				return true
			})
			ast.Inspect(x.Body, func(m ast.Node) bool {
				switch y := m.(type) {
				case *ast.Ident:
					if !nb[y.Name] && !seen[y.Name] {
						seen[y.Name] = true
						out = append(out, y.Name)
					}
				case *ast.SelectorExpr:
					walk(y.X, nb)
					return false
				case *ast.FuncLit:
					walk(y, nb)
					return false
				}
				return true
			})
		default:
			ast.Inspect(n, func(m ast.Node) bool {
				if m == n {
					return true
				}
				switch m.(type) {
				case *ast.Ident, *ast.SelectorExpr, *ast.FuncLit, *ast.KeyValueExpr:
					walk(m, bound)
					return false
				}
				return true
			})
		}
	}
	walk(e, map[string]bool{})
	return out, nil
}

func sortedKeys[V any](m map[string]V) []string {
	ks := make([]string, 0, len(m))
	for k := range m {
		ks = append(ks, k)
	}
	sort.Strings(ks)
	return ks
}

// inheritViews copies, into every view contract, the clauses it shares with the primary
// contract of the same function.
func inheritViews(cs []*Contract) error {
	for _, v := range cs {
		if v.View == "" {
			continue
		}
		var prim *Contract
		for _, c := range cs {
			if c.View == "" && !c.Extern && c.FuncName == v.FuncName && c.RecvType == v.RecvType && c.Closure == v.Closure {
				prim = c
			}
		}
		if prim == nil {
			return fmt.Errorf("%s:%d: view %s has no primary contract", v.File, v.Line, v.Key)
		}
		var inh []*Clause
		for _, cl := range prim.Clauses {
			switch {
			case cl.Kind == "requires", cl.Kind == "modifies", cl.Kind == "localwrites", cl.Kind == "freshwrites", cl.Kind == "invariant" && cl.Common:
				cp := *cl
				cp.Gen, cp.Locals = "", nil
				inh = append(inh, &cp)
			}
		}
		v.Clauses = append(inh, v.Clauses...)
		v.Trusted, v.Pure = prim.Trusted, prim.Pure
	}
	return nil
}
