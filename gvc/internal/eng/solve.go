package eng

import (
	"bytes"
	"context"
	"fmt"
	"os"
	"os/exec"
	"path/filepath"
	"strings"
	"sync"
	"time"
)

// SolverConfig controls the portfolio.
type SolverConfig struct {
	WorkDir   string
	TimeoutS  int // per obligation and solver
	Parallel  int
	Confirm   bool // thorough: confirm every discharge with a second solver
	KeepFiles bool
}

type solverSpec struct {
	name string
	args func(timeout int, file string) []string
}

// The portfolio.  Pure E-matching configurations come first: with model-based quantifier
// instantiation switched off the solvers either refute an obligation in well under a second
// or give up at once, which is what a verification-condition workload wants.
var solvers = []solverSpec{
	{"z3-new/ematching", func(t int, f string) []string {
		return []string{"z3-new", "-smt2", fmt.Sprintf("-T:%d", t), "smt.mbqi=false", f}
	}},
	{"cvc5/enum-inst", func(t int, f string) []string {
		return []string{"cvc5", "--lang=smt2", fmt.Sprintf("--tlimit=%d", t*1000), "--strings-exp", "--enum-inst", f}
	}},
	{"z3/ematching", func(t int, f string) []string {
		return []string{"z3", "-smt2", fmt.Sprintf("-T:%d", t), "smt.mbqi=false", f}
	}},
	{"z3-new/ematching/seed7", func(t int, f string) []string {
		return []string{"z3-new", "-smt2", fmt.Sprintf("-T:%d", t), "smt.mbqi=false", "smt.random_seed=7", "sat.random_seed=7", "smt.arith.random_initial_value=true", f}
	}},
	{"z3-new/ematching/seed13", func(t int, f string) []string {
		return []string{"z3-new", "-smt2", fmt.Sprintf("-T:%d", t), "smt.mbqi=false", "smt.random_seed=13", "sat.random_seed=13", f}
	}},
	{"z3-new/ematching/seed42", func(t int, f string) []string {
		return []string{"z3-new", "-smt2", fmt.Sprintf("-T:%d", t), "smt.mbqi=false", "smt.random_seed=42", "sat.random_seed=42", "smt.phase_selection=0", f}
	}},
	{"z3-new/ematching/seed99", func(t int, f string) []string {
		return []string{"z3-new", "-smt2", fmt.Sprintf("-T:%d", t), "smt.mbqi=false", "smt.random_seed=99", "sat.random_seed=99", "smt.restart_strategy=0", f}
	}},
	{"z3-new/ematching/seed2", func(t int, f string) []string {
		return []string{"z3-new", "-smt2", fmt.Sprintf("-T:%d", t), "smt.mbqi=false", "smt.random_seed=2", "sat.random_seed=2", f}
	}},
	{"z3-new/ematching/seed3", func(t int, f string) []string {
		return []string{"z3-new", "-smt2", fmt.Sprintf("-T:%d", t), "smt.mbqi=false", "smt.random_seed=3", "sat.random_seed=3", f}
	}},
	{"z3-new/ematching/seed5", func(t int, f string) []string {
		return []string{"z3-new", "-smt2", fmt.Sprintf("-T:%d", t), "smt.mbqi=false", "smt.random_seed=5", "sat.random_seed=5", "smt.phase_selection=5", f}
	}},
	{"z3-new", func(t int, f string) []string { return []string{"z3-new", "-smt2", fmt.Sprintf("-T:%d", t), f} }},
	{"cvc5", func(t int, f string) []string {
		return []string{"cvc5", "--lang=smt2", fmt.Sprintf("--tlimit=%d", t*1000), "--strings-exp", f}
	}},
}

// Script renders the standalone query of an obligation.
func Script(lines []string, o *Obligation, withModel bool) string {
	var b strings.Builder
	n := o.At
	if n > len(lines) {
		n = len(lines)
	}
	for i, l := range lines[:n] {
		if !o.keeps(i) {
			continue
		}
		b.WriteString(l)
		b.WriteByte('\n')
	}
	fmt.Fprintf(&b, "; obligation %s\n(assert %s)\n", o.Name, o.PC)
	if o.Kind == "cover" {
		b.WriteString("(check-sat)\n")
		return b.String()
	}
	fmt.Fprintf(&b, "(assert (not %s))\n(check-sat)\n", o.Goal)
	if withModel {
		b.WriteString("(get-model)\n")
	}
	return b.String()
}

// procSlots bounds the number of solver processes running at any time.
var procSlots = make(chan struct{}, 16)

func runSolver(ctx context.Context, s solverSpec, timeout int, file string) (status string, out string, ms int64) {
	select {
	case procSlots <- struct{}{}:
	case <-ctx.Done():
		return "timeout", "", 0
	}
	defer func() { <-procSlots }()
	if ctx.Err() != nil {
		return "timeout", "", 0
	}
	start := time.Now()
	args := s.args(timeout, file)
	cctx, cancel := context.WithTimeout(ctx, time.Duration(timeout+2)*time.Second)
	defer cancel()
	cmd := exec.CommandContext(cctx, args[0], args[1:]...)
	var buf bytes.Buffer
	cmd.Stdout = &buf
	cmd.Stderr = &buf
	_ = cmd.Run()
	ms = time.Since(start).Milliseconds()
	out = buf.String()
	first := ""
	for _, l := range strings.Split(out, "\n") {
		l = strings.TrimSpace(l)
		if l == "" || strings.HasPrefix(l, "WARNING") || strings.HasPrefix(l, "(warning") || strings.HasPrefix(l, ";") {
			continue
		}
		first = l
		break
	}
	switch first {
	case "unsat", "sat", "unknown":
		return first, out, ms
	case "timeout":
		return "timeout", out, ms
	}
	if cctx.Err() != nil {
		return "timeout", out, ms
	}
	if strings.Contains(out, "timeout") && !strings.Contains(out, "error") {
		return "timeout", out, ms
	}
	return "error", out, ms
}

// Discharge decides every obligation of a function result.
func Discharge(res *FuncResult, cfg SolverConfig) {
	if cfg.Parallel <= 0 {
		cfg.Parallel = 16
	}
	if cfg.TimeoutS <= 0 {
		cfg.TimeoutS = 10
	}
	os.MkdirAll(cfg.WorkDir, 0o755)
	sem := make(chan struct{}, cfg.Parallel*2)
	var wg sync.WaitGroup
	all := append([]*Obligation{}, res.Obls...)
	all = append(all, res.Covers...)
	for i, o := range all {
		wg.Add(1)
		go func(i int, o *Obligation) {
			defer wg.Done()
			sem <- struct{}{}
			defer func() { <-sem }()
			file := filepath.Join(cfg.WorkDir, fmt.Sprintf("%s_%04d.smt2", sanitize(res.Func), i))
			os.WriteFile(file, []byte(Script(res.Lines, o, false)), 0o644)
			solveOne(o, file, cfg)
			if !cfg.KeepFiles {
				os.Remove(file)
			}
		}(i, o)
	}
	wg.Wait()
}

var stage1b = solverSpec{"z3-new/ematching/alt", func(t int, f string) []string {
	return []string{"z3-new", "-smt2", fmt.Sprintf("-T:%d", t), "smt.mbqi=false", "smt.random_seed=5", "sat.random_seed=5", "smt.arith.solver=2", f}
}}

func solveOne(o *Obligation, file string, cfg SolverConfig) {
	ctx := context.Background()
	// stage 1: z3-new, short timeout
	t1 := cfg.TimeoutS
	if t1 > 8 {
		t1 = 8
	}
	if o.Kind == "cover" {
		t1 = 2
	}
	var st, out string
	var ms int64
	if o.Kind == "cover" || os.Getenv("GVC_STAGE1_SINGLE") != "" {
		st, out, ms = runSolver(ctx, solvers[0], t1, file)
		o.Solver, o.Status, o.Millis = solvers[0].name, st, ms
	} else {
		// two differently seeded configurations side by side: a query the default configuration
		// is unlucky with (seen: 0.05 s with one seed, > 30 s with another, same query) is then
		// decided at once instead of after the stage-1 cap plus a loaded race
		type a1 struct {
			name, st, out string
			ms            int64
		}
		c1, cancel1 := context.WithCancel(ctx)
		ch1 := make(chan a1, 2)
		for _, sp := range []solverSpec{solvers[0], stage1b} {
			go func(sp solverSpec) {
				s, o2, m := runSolver(c1, sp, t1, file)
				ch1 <- a1{sp.name, s, o2, m}
			}(sp)
		}
		first := <-ch1
		if first.st != "unsat" && first.st != "sat" {
			second := <-ch1
			if second.st == "unsat" || second.st == "sat" || first.st == "error" {
				first = second
			}
		}
		cancel1()
		st, out, ms = first.st, first.out, first.ms
		o.Solver, o.Status, o.Millis = first.name, st, ms
	}
	if o.Kind == "cover" {
		return
	}
	decided := func(s string) bool {
		if o.Kind == "cover" {
			return s == "sat" || s == "unsat"
		}
		return s == "unsat" || s == "sat"
	}
	if decided(st) {
		if st == "sat" {
			o.Model = out
		}
		if !(cfg.Confirm && st == "unsat") {
			return
		}
	}
	// stage 2: race all solvers with the full timeout
	type ans struct {
		name, st, out string
		ms            int64
	}
	rctx, cancel := context.WithCancel(ctx)
	defer cancel()
	ch := make(chan ans, len(solvers))
	n := 0
	for i, s := range solvers {
		if cfg.Confirm && o.Status == "unsat" && i == 0 {
			continue
		}
		n++
		go func(s solverSpec) {
			st, out, ms := runSolver(rctx, s, cfg.TimeoutS, file)
			ch <- ans{s.name, st, out, ms}
		}(s)
	}
	var errs []string
	for i := 0; i < n; i++ {
		a := <-ch
		if decided(a.st) {
			if cfg.Confirm && o.Status == "unsat" {
				if a.st == "unsat" {
					o.Solver += "+" + a.name
					return
				}
				continue
			}
			o.Solver, o.Status, o.Millis = a.name, a.st, a.ms
			if a.st == "sat" {
				o.Model = a.out
			}
			return
		}
		if a.st == "error" {
			errs = append(errs, a.name+": "+firstLines(a.out, 3))
		}
	}
	if cfg.Confirm && o.Status == "unsat" {
		o.Solver += "(single)"
		return
	}
	if o.Status == "error" || len(errs) == len(solvers) {
		o.Status = "error"
		o.Model = strings.Join(errs, "\n")
		return
	}
	if o.Status != "timeout" {
		o.Status = "unknown"
	}
	if len(errs) > 0 {
		o.Model = strings.Join(errs, "\n")
	}
}

func firstLines(s string, n int) string {
	ls := strings.Split(strings.TrimSpace(s), "\n")
	if len(ls) > n {
		ls = ls[:n]
	}
	return strings.Join(ls, " | ")
}

// HuntModel looks for a candidate counterexample of a failed obligation: the query without
// any quantified assumption (which is what keeps the solvers from answering sat).  The model
// is only a candidate: it must be confirmed by a replay on the real code.
func HuntModel(lines []string, o *Obligation, work string) string {
	var b strings.Builder
	n := o.At
	if n > len(lines) {
		n = len(lines)
	}
	for i, l := range lines[:n] {
		if !o.keeps(i) {
			continue
		}
		if strings.HasPrefix(l, "(assert") && (strings.Contains(l, "(forall ") || strings.Contains(l, "(exists ")) {
			continue
		}
		if strings.Contains(l, "\n") {
			// prelude block: filter line by line
			for _, pl := range strings.Split(l, "\n") {
				if strings.HasPrefix(pl, "(assert") && strings.Contains(pl, "(forall ") {
					continue
				}
				b.WriteString(pl)
				b.WriteByte('\n')
			}
			continue
		}
		b.WriteString(l)
		b.WriteByte('\n')
	}
	fmt.Fprintf(&b, "(assert %s)\n(assert (not %s))\n(check-sat)\n(get-model)\n", o.PC, o.Goal)
	file := filepath.Join(work, "hunt_"+sanitize(o.Name)+".smt2")
	os.WriteFile(file, []byte(b.String()), 0o644)
	defer os.Remove(file)
	st, out, _ := runSolver(context.Background(), solvers[0], 8, file)
	if st == "sat" {
		return out
	}
	return ""
}

var noSlice = os.Getenv("GVC_NOSLICE") != ""

// keeps reports whether line i of the script belongs to the obligation's path slice.
func (o *Obligation) keeps(i int) bool {
	if noSlice || o.segs == nil || o.lineSeg == nil || i >= len(*o.lineSeg) {
		return true
	}
	seg := (*o.lineSeg)[i]
	return seg == 0 || o.segs[seg]
}
