package eng

import (
	"fmt"
	"go/ast"
	"go/token"
	"go/types"
	"regexp"
	"sort"
	"strconv"
	"strings"

	"golang.org/x/tools/go/ast/astutil"
	"golang.org/x/tools/go/ssa"
)

// ---------------------------------------------------------------------------------------------
// Loop structure

type loopInfo struct {
	heads    []*ssa.BasicBlock                              // loop heads in source (block index) order
	ordinal  map[*ssa.BasicBlock]int                        // 1-based
	body     map[*ssa.BasicBlock]map[*ssa.BasicBlock]bool   // natural loop blocks (incl. head)
	backEdge map[*ssa.BasicBlock]map[*ssa.BasicBlock]bool   // head -> set of back-edge sources
	order    []*ssa.BasicBlock                              // reverse postorder ignoring back edges
}

func (e *Engine) loops(fn *ssa.Function) *loopInfo {
	if li, ok := e.loopCache[fn]; ok {
		return li
	}
	li := &loopInfo{ordinal: map[*ssa.BasicBlock]int{}, body: map[*ssa.BasicBlock]map[*ssa.BasicBlock]bool{}, backEdge: map[*ssa.BasicBlock]map[*ssa.BasicBlock]bool{}}
	if len(fn.Blocks) == 0 {
		e.loopCache[fn] = li
		return li
	}
	for _, b := range fn.Blocks {
		for _, s := range b.Succs {
			if s.Dominates(b) {
				if li.backEdge[s] == nil {
					li.backEdge[s] = map[*ssa.BasicBlock]bool{}
					li.heads = append(li.heads, s)
				}
				li.backEdge[s][b] = true
			}
		}
	}
	sort.Slice(li.heads, func(i, j int) bool { return li.heads[i].Index < li.heads[j].Index })
	for i, h := range li.heads {
		li.ordinal[h] = i + 1
		body := map[*ssa.BasicBlock]bool{h: true}
		var stack []*ssa.BasicBlock
		for u := range li.backEdge[h] {
			if !body[u] {
				body[u] = true
				stack = append(stack, u)
			}
		}
		for len(stack) > 0 {
			u := stack[len(stack)-1]
			stack = stack[:len(stack)-1]
			for _, p := range u.Preds {
				if !body[p] {
					body[p] = true
					stack = append(stack, p)
				}
			}
		}
		li.body[h] = body
	}
	// reverse postorder over forward edges
	seen := map[*ssa.BasicBlock]bool{}
	var post []*ssa.BasicBlock
	var dfs func(b *ssa.BasicBlock)
	dfs = func(b *ssa.BasicBlock) {
		seen[b] = true
		for _, s := range b.Succs {
			if li.backEdge[s] != nil && li.backEdge[s][b] {
				continue
			}
			if !seen[s] {
				dfs(s)
			}
		}
		post = append(post, b)
	}
	dfs(fn.Blocks[0])
	for i := len(post) - 1; i >= 0; i-- {
		li.order = append(li.order, post[i])
	}
	e.loopCache[fn] = li
	return li
}

// ---------------------------------------------------------------------------------------------
// Merging

func (e *Engine) mergeVals(pcs []T, vals []Val, hint string) Val {
	first := vals[0]
	same := true
	for _, v := range vals[1:] {
		if !sameVal(first, v) {
			same = false
			break
		}
	}
	if same {
		return first
	}
	// all terms?
	allT := true
	for _, v := range vals {
		if _, ok := v.(T); !ok {
			allT = false
		}
	}
	if allT {
		res := vals[len(vals)-1].(T)
		for i := len(vals) - 2; i >= 0; i-- {
			res = tIte(pcs[i], vals[i].(T), res)
		}
		return e.name(res, hint)
	}
	// tuples
	if t0, ok := first.(Tuple); ok {
		out := make(Tuple, len(t0))
		for i := range t0 {
			var vs []Val
			for _, v := range vals {
				vs = append(vs, v.(Tuple)[i])
			}
			out[i] = e.mergeVals(pcs, vs, hint)
		}
		return out
	}
	m := &MergeV{}
	for i, v := range vals {
		if mv, ok := v.(*MergeV); ok {
			for j := range mv.vals {
				m.guards = append(m.guards, tAnd(pcs[i], mv.guards[j]))
				m.vals = append(m.vals, mv.vals[j])
			}
			continue
		}
		m.guards = append(m.guards, pcs[i])
		m.vals = append(m.vals, v)
	}
	return m
}

func isNumber(s string) bool {
	if s == "" {
		return false
	}
	for _, r := range s {
		if r < '0' || r > '9' {
			return false
		}
	}
	return true
}

func sameVal(a, b Val) bool {
	switch x := a.(type) {
	case T:
		y, ok := b.(T)
		return ok && x.S == y.S
	case *CellPtr:
		y, ok := b.(*CellPtr)
		if !ok || x.key != y.key || len(x.path) != len(y.path) {
			return false
		}
		for i := range x.path {
			if x.path[i] != y.path[i] {
				return false
			}
		}
		return true
	case *FieldPtr:
		y, ok := b.(*FieldPtr)
		return ok && x.heap == y.heap && x.base.S == y.base.S
	case *ElemPtr:
		y, ok := b.(*ElemPtr)
		return ok && x.base.S == y.base.S && x.idx.S == y.idx.S
	case *GlobalPtr:
		y, ok := b.(*GlobalPtr)
		return ok && x.g == y.g
	case *FuncV:
		y, ok := b.(*FuncV)
		if !ok || x.fn != y.fn || len(x.binds) != len(y.binds) {
			return false
		}
		for i := range x.binds {
			if !sameVal(x.binds[i], y.binds[i]) {
				return false
			}
		}
		return true
	case Tuple:
		y, ok := b.(Tuple)
		if !ok || len(x) != len(y) {
			return false
		}
		for i := range x {
			if !sameVal(x[i], y[i]) {
				return false
			}
		}
		return true
	case nil:
		return b == nil
	}
	return a == b
}

// merge joins the states arriving at a block.
func (e *Engine) merge(states []*State) *State {
	var live []*State
	for _, s := range states {
		if s.pc.S != "false" {
			live = append(live, s)
		}
	}
	if len(live) == 0 {
		return nil
	}
	if len(live) == 1 {
		return live[0]
	}
	pcs := make([]T, len(live))
	pc := tFalse
	for i, s := range live {
		pcs[i] = s.pc
		pc = tOr(pc, s.pc)
	}
	out := &State{pc: e.name(pc, "pc"), cells: map[cellKey]Val{}, heaps: map[string]T{}, defers: map[int][]*deferEntry{}, segs: map[int32]bool{}}
	for _, s := range live {
		for k := range s.segs {
			out.segs[k] = true
		}
	}
	// allocation clock
	out.tbase, out.toff = live[0].tbase, live[0].toff
	sameT := true
	for _, s := range live[1:] {
		if s.tbase != out.tbase || s.toff != out.toff {
			sameT = false
		}
	}
	if !sameT {
		ts := make([]Val, len(live))
		for i, s := range live {
			ts[i] = s.time()
		}
		mt := e.mergeVals(pcs, ts, "t").(T)
		out.tbase, out.toff = mt.S, 0
		if strings.HasPrefix(mt.S, "(") || isNumber(mt.S) {
			// keep it a named term
			e.nfresh++
			n := fmt.Sprintf("t!%d", e.nfresh)
			e.emit(fmt.Sprintf("(declare-const %s Int)", n))
			e.emit(fmt.Sprintf("(assert (= %s %s))", n, mt.S))
			out.tbase = n
		}
	}
	// epoch: equal or fresh
	out.epoch = live[0].epoch
	for _, s := range live[1:] {
		if s.epoch != out.epoch {
			e.epochSeq++
			out.epoch = e.epochSeq
			break
		}
	}
	// cells
	keys := map[cellKey]bool{}
	for _, s := range live {
		for k := range s.cells {
			keys[k] = true
		}
	}
	klist := make([]cellKey, 0, len(keys))
	for k := range keys {
		klist = append(klist, k)
	}
	sort.Slice(klist, func(i, j int) bool {
		a, b := klist[i], klist[j]
		if a.frame != b.frame {
			return a.frame < b.frame
		}
		if a.alloc.Pos() != b.alloc.Pos() {
			return a.alloc.Pos() < b.alloc.Pos()
		}
		return a.alloc.Name() < b.alloc.Name()
	})
	for _, k := range klist {
		var ps []T
		var vs []Val
		for i, s := range live {
			if v, ok := s.cells[k]; ok {
				ps = append(ps, pcs[i])
				vs = append(vs, v)
			}
		}
		out.cells[k] = e.mergeVals(ps, vs, "c_"+k.alloc.Comment)
	}
	// heaps
	hn := map[string]bool{}
	for _, s := range live {
		for k := range s.heaps {
			hn[k] = true
		}
	}
	if out.epoch != live[0].epoch {
		// different epochs: every known heap name matters
		for k := range e.heapSort {
			hn[k] = true
		}
	}
	names := make([]string, 0, len(hn))
	for k := range hn {
		names = append(names, k)
	}
	sort.Strings(names)
	for _, k := range names {
		vs := make([]Val, len(live))
		for i, s := range live {
			vs[i] = e.heap(s, k, e.heapSort[k])
		}
		out.heaps[k] = e.mergeVals(pcs, vs, k).(T)
	}
	// non-nil facts: intersection
	out.nonnil = map[string]bool{}
	for k := range live[0].nonnil {
		all := true
		for _, s := range live[1:] {
			if !s.nonnil[k] {
				all = false
				break
			}
		}
		if all {
			out.nonnil[k] = true
		}
	}
	// defers
	for _, s := range live {
		for fid, list := range s.defers {
			for _, d := range list {
				dup := false
				for _, o := range out.defers[fid] {
					if o.instr == d.instr {
						dup = true
						if o.guard.S != d.guard.S {
							o.guard = tOr(o.guard, d.guard)
						}
					}
				}
				if !dup {
					c := *d
					out.defers[fid] = append(out.defers[fid], &c)
				}
			}
		}
	}
	for fid := range out.defers {
		l := out.defers[fid]
		sort.SliceStable(l, func(i, j int) bool { return l[i].order < l[j].order })
	}
	return out
}

// ---------------------------------------------------------------------------------------------
// Running a function body

type retInfo struct {
	st      *State
	results []Val
	pos     token.Pos
}

// runFunction executes fr.fn from state st (consumed) and returns the merged exit state and
// results; nil state when no return is reachable.
func (e *Engine) runFunction(fr *Frame, st *State) (*State, []Val) {
	prev := e.cur
	e.cur = fr
	defer func() { e.cur = prev }()
	fn := fr.fn
	if len(fn.Blocks) == 0 {
		e.unsupported("function %s has no body", fn)
	}
	rets, _ := e.runBlocks(fr, fn.Blocks[0], st, nil, nil)
	return e.mergeReturns(fr, rets)
}

func (e *Engine) mergeReturns(fr *Frame, rets []retInfo) (*State, []Val) {
	if len(rets) == 0 {
		return nil, nil
	}
	var states []*State
	var live []retInfo
	for _, r := range rets {
		if r.st.pc.S != "false" {
			states = append(states, r.st)
			live = append(live, r)
		}
	}
	if len(live) == 0 {
		return nil, nil
	}
	if len(live) == 1 {
		return live[0].st, live[0].results
	}
	pcs := make([]T, len(live))
	for i, r := range live {
		pcs[i] = r.st.pc
	}
	n := len(live[0].results)
	results := make([]Val, n)
	for i := 0; i < n; i++ {
		vs := make([]Val, len(live))
		for j, r := range live {
			vs[j] = r.results[i]
		}
		results[i] = e.mergeVals(pcs, vs, "ret")
	}
	return e.merge(states), results
}

// runBlocks executes the blocks reachable from start (restricted to region when non-nil).
// When dryHead is non-nil, start == dryHead is executed as a plain block and the states
// arriving on its back edges are returned instead of being checked against invariants.
func (e *Engine) runBlocks(fr *Frame, start *ssa.BasicBlock, st *State, region map[*ssa.BasicBlock]bool, dryHead *ssa.BasicBlock) (rets []retInfo, backs []*State) {
	li := e.loops(fr.fn)
	in := map[*ssa.BasicBlock][]*State{start: {st}}
	started := false
	for _, b := range li.order {
		if b == start {
			started = true
		}
		if !started {
			continue
		}
		if region != nil && !region[b] {
			continue
		}
		states := in[b]
		if len(states) == 0 {
			continue
		}
		delete(in, b)
		s := e.merge(states)
		if s == nil {
			continue
		}
		e.curSeg = 0
		e.useState(s)
		if li.backEdge[b] != nil && b != dryHead {
			s = e.enterLoop(fr, b, s)
			if s == nil {
				continue
			}
		}
		fr.blockPC[b] = s.pc
		fr.curBlock = b
		push := func(to *ssa.BasicBlock, ns *State) {
			if ns.pc.S == "false" {
				return
			}
			if li.backEdge[to] != nil && li.backEdge[to][b] {
				if to == dryHead {
					backs = append(backs, ns)
					return
				}
				e.closeLoop(fr, to, ns)
				return
			}
			if region != nil && !region[to] {
				return
			}
			in[to] = append(in[to], ns)
		}
		for _, instr := range b.Instrs {
			e.curInstr = instr
			switch x := instr.(type) {
			case *ssa.If:
				c := e.val(fr, x.Cond).(T)
				s1 := s.clone()
				s1.pc = e.name(tAnd(s.pc, c), "pc")
				s2 := s
				s2.pc = e.name(tAnd(s.pc, tNot(c)), "pc")
				push(b.Succs[0], s1)
				push(b.Succs[1], s2)
			case *ssa.Jump:
				push(b.Succs[0], s)
			case *ssa.Return:
				var rs []Val
				for _, r := range x.Results {
					rs = append(rs, e.val(fr, r))
				}
				rets = append(rets, retInfo{s, rs, x.Pos()})
			case *ssa.Panic:
				e.oblige(s, "no-panic", e.exprLabel(fr.fn, x.Pos(), "panic"), tFalse, x.Pos())
			default:
				e.step(fr, s, instr)
			}
		}
	}
	e.curSeg = 0 // whoever continues names its own state (useState)
	return rets, backs
}

// ---------------------------------------------------------------------------------------------
// Loops

func (e *Engine) loopClauses(fr *Frame, head *ssa.BasicBlock) (invs, decs []*Clause) {
	c := fr.contract
	if c == nil {
		return nil, nil
	}
	ord := e.loops(fr.fn).ordinal[head]
	for _, cl := range c.Clauses {
		if cl.Loop == ord && cl.Broken == "" {
			switch cl.Kind {
			case "invariant":
				invs = append(invs, cl)
			case "decreases":
				decs = append(decs, cl)
			}
		}
	}
	return
}

// loopLocalWrites: the contract says `loop N localwrites`: writes through pointers that change
// from iteration to iteration only reach objects allocated by this function (this is checked,
// obligation kind loop-frame); in exchange objects that existed at entry are framed.
func (e *Engine) loopLocalWrites(fr *Frame, head *ssa.BasicBlock) string {
	if fr.contract == nil {
		return ""
	}
	ord := e.loops(fr.fn).ordinal[head]
	for _, cl := range fr.contract.Clauses {
		if (cl.Kind == "localwrites" || cl.Kind == "freshwrites") && cl.Loop == ord {
			return cl.Kind
		}
	}
	return ""
}

// enterLoop: assert invariants, havoc what the loop modifies, assume invariants.
func (e *Engine) enterLoop(fr *Frame, head *ssa.BasicBlock, s *State) *State {
	e.useState(s)
	li := e.loops(fr.fn)
	ord := li.ordinal[head]
	invs, _ := e.loopClauses(fr, head)
	if e.dry == 0 || fr.loopTime[head] == "" {
		fr.loopTime[head] = s.time().S
	}
	for _, cl := range invs {
		g := e.evalLoopClause(fr, s, cl, head)
		e.oblige(s, "inv-init", fmt.Sprintf("loop%d:%s", ord, clauseLabel(cl)), g, head.Instrs[0].Pos())
	}
	// modified set by dry run
	timeBefore := s.time().S
	if _, seen := fr.loopTime[head]; !seen || e.dry == 0 {
		fr.loopTime[head] = timeBefore
	}
	cells, heaps, all, lf, lcond := e.loopModified(fr, head, s)
	if all {
		// an unrestricted havoc inside the loop: everything is unknown at the head, except the
		// ghost state when the dry run showed it unchanged on every back edge
		modified := map[string]bool{}
		for _, h := range heaps {
			modified[h] = true
		}
		saved := map[string]T{}
		for name, sort := range e.heapSort {
			if isGhostHeap(name) && !modified[name] {
				saved[name] = e.heap(s, name, sort)
			}
		}
		e.havocAll(s)
		for name, t := range saved {
			s.heaps[name] = t
		}
	} else {
		e.bumpTime(s)
	}
	for _, k := range cells {
		old := s.cells[k]
		if _, ok := old.(T); !ok {
			e.unsupported("loop %d of %s modifies non-term cell %s", ord, fr.fn.Name(), k.alloc.Comment)
		}
		t := k.alloc.Type().(*types.Pointer).Elem()
		s.cells[k] = e.freshOfType(s, t, "l_"+k.alloc.Comment)
	}
	for _, h := range heaps {
		pre := e.heap(s, h, e.heapSort[h])
		nv := e.fresh(e.heapSort[h], "lh_"+h)
		s.heaps[h] = nv
		e.heapWf(s, nv)
		e.heapOlderThanNow(s, nv)
		// loop frame: objects that existed before the loop and are not written by it keep their value
		if bases, ok := lf[h]; ok && !all && strings.HasPrefix(nv.Sort, "(Array Ref ") {
			cond := fmt.Sprintf("(< (newid x) %s)", timeBefore)
			lw := e.loopLocalWrites(fr, head)
			if lcond[h] && lw == "" {
				e.recWild(h)
				continue
			}
			if lcond[h] {
				if lw == "freshwrites" {
					fr.condSince[head] = timeBefore
				} else {
					cond = "(= (newid x) 0)"
				}
				if fr.condFrames[head] == nil {
					fr.condFrames[head] = map[string][]string{}
				}
				fr.condFrames[head][h] = bases
				if e.collect != nil {
					if lw == "freshwrites" {
						e.recWild(h) // relative to this loop's start: an enclosing loop cannot rely on it
					} else {
						// absolute frame (objects that existed at function entry): an enclosing
						// loop may assume the same frame, under the same condition
						e.collect.bases[h] = append(e.collect.bases[h], T{"COND", "COND"})
					}
				}
			}
			for _, b := range bases {
				if strings.HasPrefix(b, "ELEMS:") {
					cond += fmt.Sprintf(" (not (and (= (rkind x) 1) (= (ebase x) %s)))", b[6:])
				} else {
					cond += fmt.Sprintf(" (not (= x %s))", b)
				}
			}
			e.emit(fmt.Sprintf("(assert (forall ((x Ref)) (! (=> (and %s) (= (select %s x) (select %s x))) :pattern ((select %s x)))))", cond, nv.S, pre.S, nv.S))
			if e.collect != nil {
				for _, b := range bases {
					if strings.HasPrefix(b, "ELEMS:") {
						e.recStore(s, h, T{b[6:], "ELEMS"})
					} else {
						e.recStore(s, h, T{b, sRef})
					}
				}
			}
		} else {
			e.recWild(h)
		}
	}
	// the hidden index of a range-over-slice loop starts at -1 and is only incremented by the
	// loop header (checked on the SSA shape): it never drops below -1.
	if ra := e.rangeIndexAlloc(head); ra != nil && rangeIndexShape(ra, head) {
		if cp, ok := fr.vals[ra].(*CellPtr); ok {
			if v, ok := s.cells[cp.key].(T); ok {
				e.assume(s, T{fmt.Sprintf("(>= %s (- 1))", v.S), sBool})
			}
		}
	}
	for _, cl := range invs {
		g := e.evalLoopClause(fr, s, cl, head)
		e.assume(s, g)
	}
	fr.loopHead[head] = s.clone()
	return s
}

// heapWf assumes the type invariants of a havocked heap that the engine relies on.
func (e *Engine) heapWf(st *State, h T) {
	if !strings.HasPrefix(h.Sort, "(Array Ref ") {
		if h.Sort == sSlice {
			e.assume(st, T{app("wf_slice", h), sBool})
		}
		return
	}
	_, v := arrayKV(h.Sort)
	switch v {
	case sSlice:
		e.emit(fmt.Sprintf("(assert (forall ((x Ref)) (! (wf_slice (select %s x)) %s)))", h.S, slicePatterns("(select "+h.S+" x)")))
	case "(Array Int Slice)":
		e.emit(fmt.Sprintf("(assert (forall ((x Ref) (i Int)) (! (wf_slice (select (select %s x) i)) %s)))", h.S, slicePatterns("(select (select "+h.S+" x) i)")))
	}
}

// closeLoop: a back edge reaches head with state s.
func (e *Engine) closeLoop(fr *Frame, head *ssa.BasicBlock, s *State) {
	ord := e.loops(fr.fn).ordinal[head]
	invs, decs := e.loopClauses(fr, head)
	for _, cl := range invs {
		g := e.evalLoopClause(fr, s, cl, head)
		e.oblige(s, "inv-pres", fmt.Sprintf("loop%d:%s", ord, clauseLabel(cl)), g, head.Instrs[0].Pos())
	}
	hs := fr.loopHead[head]
	for _, cl := range decs {
		if hs == nil {
			break
		}
		hs2 := hs.clone()
		hs2.pc = s.pc
		before := e.evalLoopClause(fr, hs2, cl, head)
		after := e.evalLoopClause(fr, s, cl, head)
		g := T{fmt.Sprintf("(and (<= 0 %s) (< %s %s))", after.S, after.S, before.S), sBool}
		e.oblige(s, "decreases", fmt.Sprintf("loop%d", ord), g, head.Instrs[0].Pos())
	}
}

func clauseLabel(cl *Clause) string {
	if cl.Label != "" {
		return cl.Label
	}
	x := strings.Join(strings.Fields(cl.Expr), " ")
	if len(x) > 60 {
		x = x[:60]
	}
	return x
}

// loopModified runs the loop body once from a fully havocked state with all output
// discarded and reports which cells and heaps differ on a back edge.
func (e *Engine) loopModified(fr *Frame, head *ssa.BasicBlock, s *State) (cells []cellKey, heaps []string, all bool, frames map[string][]string, cond map[string]bool) {
	li := e.loops(fr.fn)
	e.dry++
	defer func() { e.dry-- }()
	n0 := e.nfresh
	savedCollect := e.collect
	col := &loopFrame{bases: map[string][]T{}, wild: map[string]bool{}}
	e.collect = col
	defer func() { e.collect = savedCollect }()
	// save register map: the dry run must not leak register values
	saved := fr.vals
	fr.vals = make(map[ssa.Value]Val, len(saved))
	for k, v := range saved {
		fr.vals[k] = v
	}
	savedHeads := fr.loopHead
	fr.loopHead = map[*ssa.BasicBlock]*State{}
	defer func() { fr.vals = saved; fr.loopHead = savedHeads }()

	d := s.clone()
	d.pc = tTrue
	marks := map[cellKey]string{}
	for k, v := range d.cells {
		if _, ok := v.(T); ok {
			t := k.alloc.Type().(*types.Pointer).Elem()
			m := T{e.freshName("dry"), e.sortOf(t)}
			d.cells[k] = m
			marks[k] = m.S
		}
	}
	e.epochSeq++
	d.epoch = e.epochSeq
	d.heaps = map[string]T{}
	startEpoch := d.epoch
	_, backs := e.runBlocks(fr, head, d, li.body[head], head)
	cellSet := map[cellKey]bool{}
	heapSet := map[string]bool{}
	for _, b := range backs {
		if b.epoch != startEpoch {
			all = true
		}
		for k, m := range marks {
			v, ok := b.cells[k]
			if !ok {
				continue
			}
			if tv, ok := v.(T); !ok || tv.S != m {
				cellSet[k] = true
			}
		}
		for k, v := range b.cells {
			if _, marked := marks[k]; marked {
				continue
			}
			if old, ok := s.cells[k]; ok && !sameVal(old, v) {
				// non-term cell changed in the loop
				cellSet[k] = true
			}
		}
		for h, v := range b.heaps {
			if v.S != fmt.Sprintf("%s@%d", h, startEpoch) {
				heapSet[h] = true
			}
		}
	}
	for k := range cellSet {
		cells = append(cells, k)
	}
	sort.Slice(cells, func(i, j int) bool { return cells[i].alloc.Pos() < cells[j].alloc.Pos() })
	for h := range heapSet {
		heaps = append(heaps, h)
	}
	sort.Strings(heaps)
	// loop frames: classify the written objects
	frames = map[string][]string{}
	cond = map[string]bool{}
	if !col.wild["*"] {
		markOf := map[string]cellKey{}
		for k, m := range marks {
			markOf[m] = k
		}
		for _, h := range heaps {
			if col.wild[h] {
				continue
			}
			ok := true
			seen := map[string]bool{}
			var bs []string
			for _, b := range col.bases[h] {
				if b.Sort == "COND" {
					cond[h] = true
					continue
				}
				txt, inv := e.loopInvariantTerm(b.S, n0, markOf, cellSet, s)
				if b.Sort == "ELEMS" {
					txt = "ELEMS:" + txt
				}
				if !inv {
					if isInLoopAlloc(b.S, n0) {
						continue // object allocated by the loop body: not an old object
					}
					// a base that changes from iteration to iteration: the frame is assumed for
					// objects that existed at function entry only, and every such write is checked
					// (obligation kind loop-frame) to target an object allocated by this function
					cond[h] = true
					continue
				}
				if !seen[txt] {
					seen[txt] = true
					bs = append(bs, txt)
				}
			}
			if ok {
				frames[h] = bs
				if bs == nil {
					frames[h] = []string{}
				}
			}
		}
	}
	return
}

var bangID = regexp.MustCompile(`[A-Za-z_][A-Za-z0-9_]*!([0-9]+)`)

// isInLoopAlloc: a new_* constant created during the dry run.
func isInLoopAlloc(t string, n0 int) bool {
	if !strings.HasPrefix(t, "new_") {
		return false
	}
	m := bangID.FindStringSubmatch(t)
	if m == nil || m[0] != t {
		return false
	}
	id, _ := strconv.Atoi(m[1])
	return id > n0
}

// loopInvariantTerm rewrites a base term of the dry run into a term valid before the loop,
// when it only depends on values that existed before the loop and on cells the loop does not
// modify.
func (e *Engine) loopInvariantTerm(t string, n0 int, markOf map[string]cellKey, modified map[cellKey]bool, pre *State) (string, bool) {
	ok := true
	out := bangID.ReplaceAllStringFunc(t, func(tok string) string {
		m := bangID.FindStringSubmatch(tok)
		id, _ := strconv.Atoi(m[1])
		if id <= n0 {
			return tok
		}
		if k, isMark := markOf[tok]; isMark && !modified[k] {
			if pv, isT := pre.cells[k].(T); isT {
				return pv.S
			}
		}
		ok = false
		return tok
	})
	if strings.Contains(t, "@") {
		// reads of dry-run heaps are not loop invariant
		for _, f := range strings.FieldsFunc(t, func(r rune) bool { return r == ' ' || r == '(' || r == ')' }) {
			if i := strings.LastIndex(f, "@"); i > 0 {
				if ep, err := strconv.Atoi(f[i+1:]); err == nil && ep != pre.epoch {
					ok = false
				}
			}
		}
	}
	return out, ok
}

// evalLoopClause evaluates an invariant/decreases clause in state s.
func (e *Engine) evalLoopClause(fr *Frame, s *State, cl *Clause, head *ssa.BasicBlock) T {
	gen := e.P.GenFunc(fr.contract, cl)
	if gen == nil {
		e.unsupported("generated function %s not found", cl.Gen)
	}
	var args []Val
	for _, lr := range cl.Locals {
		args = append(args, e.localValue(fr, s, lr, head))
	}
	old := fr.entry
	saved := e.loopTimeCtx
	e.loopTimeCtx = fr.loopTime[head]
	defer func() { e.loopTimeCtx = saved }()
	return e.evalSpec(fr, gen, args, s, old)
}

// localValue is the current value of a source-level local variable.
func (e *Engine) localValue(fr *Frame, s *State, lr LocalRef, head *ssa.BasicBlock) Val {
	switch lr.Name {
	case "loopk":
		a := e.rangeIndexAlloc(head)
		if a == nil {
			e.unsupported("loopk: loop is not a range-over-slice loop")
		}
		v := e.load(s, fr.vals[a], types.Typ[types.Int]).(T)
		return T{fmt.Sprintf("(+ %s 1)", v.S), sInt}
	case "loopi1", "loopi2", "loopi3", "loopi4", "loopi5", "loopi6", "loopi7", "loopi8", "loopi9":
		// the current range index of an enclosing loop, named by its ordinal
		want := int(lr.Name[5] - '0')
		var a *ssa.Alloc
		for h, ord := range e.loops(fr.fn).ordinal {
			if ord == want {
				a = e.rangeIndexAlloc(h)
			}
		}
		if a == nil {
			e.unsupported("%s: loop %d is not a range-over-slice loop", lr.Name, want)
		}
		if _, ok := fr.vals[a]; !ok {
			e.unsupported("%s: loop %d has not been entered", lr.Name, want)
		}
		return e.load(s, fr.vals[a], types.Typ[types.Int])
	case "loopseen":
		for _, in := range head.Instrs {
			if n, ok := in.(*ssa.Next); ok && !n.IsString {
				if it, ok := fr.vals[n.Iter].(*iterV); ok {
					return e.heap(s, it.id, it.sort)
				}
			}
		}
		e.unsupported("loopseen: loop is not a range-over-map loop")
	case "loopx":
		x := e.rangeOperand(head)
		if x == nil {
			e.unsupported("loopx: cannot find range operand")
		}
		return e.val(fr, x)
	}
	if lr.Entry && lr.ParamIdx >= 0 && fr.contract != nil && fr.contract.Closure > 0 && fr.contract.RecvType != "" {
		if lr.ParamIdx == 0 {
			return e.capturedValue(fr, s, fr.contract.RecvName)
		}
		return e.val(fr, fr.fn.Params[lr.ParamIdx-1])
	}
	if lr.Entry && lr.ParamIdx >= 0 {
		if lr.ParamIdx >= len(fr.fn.Params) {
			e.unsupported("header parameter %s out of range", lr.Name)
		}
		return e.val(fr, fr.fn.Params[lr.ParamIdx])
	}
	if lr.Entry {
		name := strings.TrimPrefix(lr.Name, "gvcentry_")
		for _, p := range fr.fn.Params {
			if p.Name() == name {
				return e.val(fr, p)
			}
		}
		e.unsupported("entry value of %s: no such parameter", name)
	}
	idx := e.allocsByPos(fr.fn)
	key := fmt.Sprintf("%s:%d:%d", lr.Decl.Filename, lr.Decl.Line, lr.Decl.Column)
	a := idx[key]
	if a == nil {
		for _, fv := range fr.fn.FreeVars {
			if fv.Name() == lr.Name {
				return e.capturedValue(fr, s, lr.Name)
			}
		}
		e.unsupported("local %s (declared at %s) has no storage in %s", lr.Name, key, fr.fn.Name())
	}
	p, ok := fr.vals[a]
	if !ok {
		e.unsupported("local %s is not yet declared at the loop head", lr.Name)
	}
	return e.load(s, p, a.Type().(*types.Pointer).Elem())
}

func (e *Engine) allocsByPos(fn *ssa.Function) map[string]*ssa.Alloc {
	if m, ok := e.allocIndex[fn]; ok {
		return m
	}
	m := map[string]*ssa.Alloc{}
	for _, b := range fn.Blocks {
		for _, in := range b.Instrs {
			if a, ok := in.(*ssa.Alloc); ok && a.Pos().IsValid() {
				p := e.P.Fset.Position(a.Pos())
				m[fmt.Sprintf("%s:%d:%d", p.Filename, p.Line, p.Column)] = a
			}
		}
	}
	e.allocIndex[fn] = m
	return m
}

func (e *Engine) rangeIndexAlloc(head *ssa.BasicBlock) *ssa.Alloc {
	for _, in := range head.Instrs {
		if u, ok := in.(*ssa.UnOp); ok && u.Op == token.MUL {
			if a, ok := u.X.(*ssa.Alloc); ok && a.Comment == "rangeindex" {
				return a
			}
		}
	}
	return nil
}

// rangeIndexShape: every store to the hidden index is the constant -1 or (load of it) + 1
// located in the loop header.
func rangeIndexShape(a *ssa.Alloc, head *ssa.BasicBlock) bool {
	refs := a.Referrers()
	if refs == nil {
		return false
	}
	for _, r := range *refs {
		st, ok := r.(*ssa.Store)
		if !ok {
			if u, isU := r.(*ssa.UnOp); isU && u.Op == token.MUL {
				continue
			}
			if _, isD := r.(*ssa.DebugRef); isD {
				continue
			}
			return false
		}
		if c, isC := st.Val.(*ssa.Const); isC {
			if c.Value != nil && c.Value.ExactString() == "-1" {
				continue
			}
			return false
		}
		b, isB := st.Val.(*ssa.BinOp)
		if !isB || b.Op != token.ADD || st.Block() != head {
			return false
		}
		c, isC := b.Y.(*ssa.Const)
		if !isC || c.Value == nil || c.Value.ExactString() != "1" {
			return false
		}
		l, isL := b.X.(*ssa.UnOp)
		if !isL || l.Op != token.MUL || l.X != a {
			return false
		}
	}
	return true
}

func (e *Engine) rangeOperand(head *ssa.BasicBlock) ssa.Value {
	for _, in := range head.Instrs {
		if b, ok := in.(*ssa.BinOp); ok && b.Op == token.LSS {
			if c, ok := b.Y.(*ssa.Call); ok {
				if bi, ok := c.Call.Value.(*ssa.Builtin); ok && bi.Name() == "len" {
					return c.Call.Args[0]
				}
			}
		}
	}
	return nil
}

// ---------------------------------------------------------------------------------------------
// Values

func (e *Engine) val(fr *Frame, v ssa.Value) Val {
	switch x := v.(type) {
	case *ssa.Const:
		if x.Value == nil {
			// nil / zero
			if _, ok := x.Type().Underlying().(*types.Signature); ok {
				return T{"nil_func", sFunc}
			}
			if _, ok := x.Type().(*types.Tuple); ok {
				e.unsupported("nil tuple")
			}
			return e.zero(x.Type())
		}
		return e.constTerm(x.Value, x.Type())
	case *ssa.Global:
		t := x.Type().(*types.Pointer).Elem()
		if _, ok := isStruct(t); ok {
			return e.globalRef(x)
		}
		if _, ok := t.Underlying().(*types.Array); ok {
			return e.globalRef(x)
		}
		return &GlobalPtr{x}
	case *ssa.Function:
		return &FuncV{fn: x}
	case *ssa.Builtin:
		e.unsupported("builtin %s as value", x.Name())
	case *ssa.FreeVar:
		for i, fv := range fr.fn.FreeVars {
			if fv == x {
				if i < len(fr.binds) {
					return fr.binds[i]
				}
			}
		}
		if r, ok := fr.vals[v]; ok {
			return r
		}
		e.unsupported("free variable %s unbound", x.Name())
	}
	if r, ok := fr.vals[v]; ok {
		return r
	}
	e.unsupported("value %s (%T) of %s not computed", v.Name(), v, fr.fn.Name())
	return nil
}

func (e *Engine) globalRef(g *ssa.Global) T {
	n := "gref_" + sanitize(g.Pkg.Pkg.Name()) + "_" + g.Name()
	if !e.declared[n] {
		e.declared[n] = true
		e.emitDecl(fmt.Sprintf("(declare-const %s Ref)", n))
		e.emitDecl(fmt.Sprintf("(assert (and (not (= %s nil)) (= (newid %s) 0) (= (rkind %s) 0)))", n, n, n))
		// package-level variables are pairwise distinct objects
		e.declFun("gvc_gidx", "(Ref) Int")
		e.nGlobals++
		e.emitDecl(fmt.Sprintf("(assert (= (gvc_gidx %s) %d))", n, e.nGlobals))
	}
	return T{n, sRef}
}

// exprLabel returns a normalised source text for the expression at pos.
func (e *Engine) exprLabel(fn *ssa.Function, pos token.Pos, fallback string) string {
	if !pos.IsValid() {
		return fallback
	}
	var file *ast.File
	p := e.P.Fset.Position(pos)
	for _, pk := range e.P.AllPkgs {
		for _, f := range pk.Syntax {
			if e.P.Fset.Position(f.Pos()).Filename == p.Filename {
				file = f
			}
		}
		if file != nil {
			break
		}
	}
	if file == nil {
		return fallback
	}
	path, _ := astutil.PathEnclosingInterval(file, pos, pos+1)
	for _, n := range path {
		switch n.(type) {
		case *ast.IndexExpr, *ast.SliceExpr, *ast.SelectorExpr, *ast.StarExpr, *ast.CallExpr, *ast.TypeAssertExpr, *ast.BinaryExpr, *ast.UnaryExpr, *ast.CompositeLit, *ast.RangeStmt:
			if rs, ok := n.(*ast.RangeStmt); ok {
				return "range " + strings.Join(strings.Fields(e.P.Source(rs.X.Pos(), rs.X.End())), " ")
			}
			txt := strings.Join(strings.Fields(e.P.Source(n.Pos(), n.End())), " ")
			if len(txt) > 70 {
				txt = txt[:70]
			}
			if txt != "" {
				return txt
			}
		}
	}
	return fallback
}
