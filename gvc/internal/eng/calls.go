package eng

import (
	"os"
	"fmt"
	"go/token"
	"go/types"
	"strings"

	"golang.org/x/tools/go/ssa"
)

func packResults(sig *types.Signature, rs []Val) Val {
	switch sig.Results().Len() {
	case 0:
		return Tuple{}
	case 1:
		if len(rs) == 0 {
			return nil
		}
		return rs[0]
	}
	return Tuple(rs)
}

func unpackResults(v Val, n int) []Val {
	switch n {
	case 0:
		return nil
	case 1:
		return []Val{v}
	}
	return []Val(v.(Tuple))
}

// call executes a call instruction (Call, Defer target or Go are handled by the callers).
func (e *Engine) call(fr *Frame, st *State, instr ssa.Instruction, c *ssa.CallCommon, pos token.Pos) Val {
	var args []Val
	for _, a := range c.Args {
		args = append(args, e.val(fr, a))
	}
	if c.IsInvoke() {
		recv := e.val(fr, c.Value).(T)
		return e.invoke(fr, st, c.Method, recv, args, pos)
	}
	switch f := c.Value.(type) {
	case *ssa.Builtin:
		return e.builtin(fr, st, f, c, args, pos)
	case *ssa.Function:
		return e.callStatic(fr, st, f, nil, args, pos)
	}
	fv := e.val(fr, c.Value)
	if ft, ok := fv.(T); ok {
		// a call through a value of a named function type that has an assumed contract
		if ec := e.P.Externs["functype:"+types.TypeString(c.Value.Type(), nil)]; ec != nil {
			e.oblige(st, "safe-nil", e.exprLabel(fr.fn, pos, "call of function value"), tNot(tEq(ft, T{"nil_func", sFunc})), pos)
			return e.applyContract(fr, st, ec, nil, c.Signature(), append([]Val{ft}, args...), pos)
		}
	}
	return e.callValue(fr, st, fv, args, c.Signature(), pos)
}

// callValue calls a function value.
func (e *Engine) callValue(fr *Frame, st *State, fv Val, args []Val, sig *types.Signature, pos token.Pos) Val {
	switch f := fv.(type) {
	case *FuncV:
		a := args
		if f.recv != nil {
			a = append([]Val{f.recv}, args...)
		}
		return e.callStatic(fr, st, f.fn, f.binds, a, pos)
	case *MergeV:
		// conditional call of each alternative
		var states []*State
		var results []Val
		var pcs []T
		for i, alt := range f.vals {
			s := st.clone()
			s.pc = e.name(tAnd(st.pc, f.guards[i]), "pc")
			r := e.callValue(fr, s, alt, args, sig, pos)
			if s.pc.S == "false" {
				continue
			}
			states = append(states, s)
			results = append(results, r)
			pcs = append(pcs, s.pc)
		}
		if len(states) == 0 {
			st.pc = tFalse
			return e.freshOfType(st, sig.Results(), "r")
		}
		m := e.merge(states)
		st.assign(m)
		return e.mergeVals(pcs, results, "r")
	case T:
		// unknown function value: assumed pure and deterministic
		e.trust("function-typed parameters are pure, deterministic and total")
		if e.noOblig == 0 {
			e.oblige(st, "safe-nil", e.exprLabel(fr.fn, pos, "call of function value"), tNot(tEq(f, T{"nil_func", sFunc})), pos)
		}
		return e.uninterpCall("app", f, args, sig)
	}
	e.unsupported("call of %T", fv)
	return nil
}

// uninterpCall models a call as an uninterpreted function of its (term) arguments.
func (e *Engine) uninterpCall(prefix string, f T, args []Val, sig *types.Signature) Val {
	var ts []T
	var sorts []string
	if f.S != "" {
		ts = append(ts, f)
		sorts = append(sorts, f.Sort)
	}
	for i, a := range args {
		t, ok := a.(T)
		if !ok {
			if fv, isF := a.(*FuncV); isF {
				t = e.funcToTerm(fv)
			} else {
				e.unsupported("argument %d of %s is %T", i, prefix, a)
			}
		}
		ts = append(ts, t)
		sorts = append(sorts, t.Sort)
	}
	n := sig.Results().Len()
	out := make([]Val, n)
	for i := 0; i < n; i++ {
		rs := e.sortOf(sig.Results().At(i).Type())
		name := fmt.Sprintf("%s_%s_r%d", prefix, sanitize(strings.Join(sorts, "_")+"_"+rs), i)
		e.declFun(name, "("+strings.Join(sorts, " ")+") "+rs)
		if len(ts) == 0 {
			out[i] = T{"(" + name + ")", rs}
			out[i] = T{name, rs}
		} else {
			out[i] = e.name(T{app(name, ts...), rs}, "u")
		}
	}
	return packResults(sig, out)
}

// callStatic dispatches a call to a known function.
func (e *Engine) callStatic(fr *Frame, st *State, fn *ssa.Function, binds []Val, args []Val, pos token.Pos) Val {
	sig := fn.Signature
	name := fn.Name()
	if fn.Origin() != nil {
		name = fn.Origin().Name()
	}
	if strings.HasPrefix(name, "Gvc") && len(fn.Blocks) > 0 && isPanicStub(fn) {
		return e.intrinsic(fr, st, name, fn, args, pos)
	}
	if e.P.RecFuncs[fn] {
		return e.recCall(fr, st, fn, args, pos)
	}
	if strings.HasPrefix(name, "Gvc") {
		return e.inline(fr, st, fn, binds, args, pos)
	}
	// contract?
	target := fn
	if fn.Origin() != nil {
		target = fn.Origin()
	}
	if c := e.P.ByFunc[target]; c != nil {
		if c.Inline || fr.spec && !c.Pure {
			if len(fn.Blocks) > 0 {
				return e.inline(fr, st, fn, binds, args, pos)
			}
		}
		return e.applyContract(fr, st, c, fn, sig, args, pos)
	}
	full := fn.String()
	if fn.Origin() != nil {
		full = fn.Origin().String()
	}
	if m, ok := models[full]; ok {
		return m(e, fr, st, fn, args, pos)
	}
	if c := e.P.Externs[full]; c != nil {
		return e.applyContract(fr, st, c, fn, sig, args, pos)
	}
	// closures and synthetic wrappers are part of the text of their parent
	isInstance := fn.Origin() != nil && fn.Origin() != fn
	if fn.Parent() != nil || fn.Synthetic != "" && !isInstance && len(fn.Blocks) > 0 {
		return e.inline(fr, st, fn, binds, args, pos)
	}
	pkgOf := fn.Pkg
	if pkgOf == nil && isInstance {
		pkgOf = fn.Origin().Pkg
	}
	inModule := pkgOf != nil && e.inModule(pkgOf.Pkg.Path())
	if len(fn.Blocks) > 0 && inModule {
		if fr.spec || e.smallEnough(fn) && fr.depth < e.MaxInline {
			return e.inline(fr, st, fn, binds, args, pos)
		}
		return e.conservativeCall(fr, st, fn, args, pos)
	}
	// library function without a model
	if pkgOf != nil && purePkgs[pkgOf.Pkg.Path()] {
		return e.pureLibCall(fr, st, fn, full, args)
	}
	if valueOnly(sig) {
		e.trust("library function " + full + " is a pure, deterministic function of its arguments")
		return e.uninterpCall("lib_"+sanitize(full), T{}, args, sig)
	}
	// a library function without model or contract: everything but the ghost state may have
	// changed, nothing is known about the result.  (Library code is assumed not to call the
	// module's contracted interfaces except through function values it is handed, and those
	// closures are scanned for ghost effects.)
	for _, a := range args {
		if fv, ok := a.(*FuncV); ok && e.mayTouchGhost(fv.fn, map[*ssa.Function]bool{}) {
			e.unsupported("library function %s is given a callback with ghost effects", full)
		}
	}
	e.trust("library function " + full + " has no contract: summarised as 'may change any non-ghost state, unknown result'")
	saved := map[string]T{}
	for name, sort := range e.heapSort {
		if isGhostHeap(name) {
			saved[name] = e.heap(st, name, sort)
		}
	}
	e.havocAll(st)
	for name, t := range saved {
		st.heaps[name] = t
	}
	return e.freshOfType(st, sig.Results(), "lib_"+fn.Name())
}

func isPanicStub(fn *ssa.Function) bool {
	if len(fn.Blocks) != 1 {
		return false
	}
	for _, in := range fn.Blocks[0].Instrs {
		if _, ok := in.(*ssa.Panic); ok {
			return true
		}
	}
	return false
}

func (e *Engine) inModule(path string) bool {
	return strings.HasPrefix(path, "ariga.io/atlas") || strings.HasPrefix(path, "gvctoy")
}

func (e *Engine) smallEnough(fn *ssa.Function) bool {
	if len(e.loops(fn).heads) > 0 {
		return false
	}
	n := 0
	for _, b := range fn.Blocks {
		n += len(b.Instrs)
	}
	return n <= 120
}

func valueOnly(sig *types.Signature) bool {
	ok := func(t types.Type) bool {
		switch u := t.Underlying().(type) {
		case *types.Basic:
			return u.Kind() != types.UnsafePointer
		}
		return false
	}
	if sig.Recv() != nil {
		return false
	}
	for i := 0; i < sig.Params().Len(); i++ {
		if !ok(sig.Params().At(i).Type()) {
			return false
		}
	}
	for i := 0; i < sig.Results().Len(); i++ {
		if !ok(sig.Results().At(i).Type()) {
			return false
		}
	}
	return sig.Results().Len() > 0
}

// inline executes the body of fn in the caller's state.
func (e *Engine) inline(fr *Frame, st *State, fn *ssa.Function, binds []Val, args []Val, pos token.Pos) Val {
	if fr.depth > 40 {
		e.unsupported("inlining too deep at %s", fn)
	}
	for f := fr; f != nil; f = f.caller {
		if f.fn == fn && !fr.spec {
			// recursion: needs a contract
			if c := e.P.ByFunc[fn]; c != nil {
				return e.applyContract(fr, st, c, fn, fn.Signature, args, pos)
			}
			e.unsupported("recursive call of %s without contract", fn)
		}
	}
	nf := e.newFrame(fn, fr)
	nf.binds = binds
	origin := fn
	if fn.Origin() != nil {
		origin = fn.Origin()
		if len(fn.TypeArgs()) > 0 {
			m := map[*types.TypeParam]types.Type{}
			tps := origin.TypeParams()
			for i := 0; i < tps.Len() && i < len(fn.TypeArgs()); i++ {
				m[tps.At(i)] = fn.TypeArgs()[i]
			}
			nf.tsubst = m
		}
	}
	if c := e.P.ByFunc[origin]; c != nil {
		nf.contract = c
	} else if fn.Parent() != nil {
		nf.contract = e.closureContract(fn)
	}
	if len(args) != len(fn.Params) {
		e.unsupported("call of %s with %d args, want %d", fn, len(args), len(fn.Params))
	}
	for i, p := range fn.Params {
		nf.vals[p] = args[i]
	}
	nf.entry = fr.entry
	out, res := e.runFunction(nf, st.clone())
	if out == nil {
		st.pc = tFalse
		return e.freshOfType(st, fn.Signature.Results(), "unreach")
	}
	// drop the callee's cells
	for k := range out.cells {
		if k.frame == nf.id {
			delete(out.cells, k)
		}
	}
	delete(out.defers, nf.id)
	st.assign(out)
	return packResults(fn.Signature, res)
}

// closureContract finds loop clauses written for an anonymous function: key "Outer$1".
func (e *Engine) closureContract(fn *ssa.Function) *Contract {
	return nil
}

// conservativeCall: an in-module function without contract that is not inlined: everything
// may have changed, nothing is known about the result.
func (e *Engine) conservativeCall(fr *Frame, st *State, fn *ssa.Function, args []Val, pos token.Pos) Val {
	if !e.mayTouchGhost(fn, map[*ssa.Function]bool{}) {
		// the callee cannot reach any call that has a ghost effect (static call graph, checked
		// on every run): everything but the ghost state may have changed
		e.note("conservative summary (ghost state preserved) used for call to %s", fn)
		saved := map[string]T{}
		for name, sort := range e.heapSort {
			if isGhostHeap(name) {
				saved[name] = e.heap(st, name, sort)
			}
		}
		e.havocAll(st)
		for name, t := range saved {
			st.heaps[name] = t
		}
		return e.freshOfType(st, fn.Signature.Results(), "r_"+fn.Name())
	}
	e.note("conservative summary used for call to %s (no contract, not inlined)", fn)
	e.havocAll(st)
	return e.freshOfType(st, fn.Signature.Results(), "r_"+fn.Name())
}

// ---------------------------------------------------------------------------------------------
// Interface method calls

func (e *Engine) invoke(fr *Frame, st *State, m *types.Func, recv T, args []Val, pos token.Pos) Val {
	sig := m.Type().(*types.Signature)
	full := m.FullName()
	if e.noOblig == 0 {
		e.oblige(st, "safe-nil", e.exprLabel(fr.fn, pos, "invoke "+m.Name()), tNot(tEq(recv, tIfNil)), pos)
	}
	all := append([]Val{recv}, args...)
	if c := e.P.Externs[full]; c != nil {
		return e.applyContract(fr, st, c, nil, sig, all, pos)
	}
	if mm, ok := methodModels[full]; ok {
		return mm(e, fr, st, recv, args, sig, pos)
	}
	if (m.Name() == "Error" || m.Name() == "String") && sig.Params().Len() == 0 && sig.Results().Len() == 1 {
		e.trust("Error()/String() methods are pure getters")
		return e.uninterpCall("m_"+m.Name(), T{}, all, sig)
	}
	// an interface method without an assumed contract: may change any non-ghost state; it is
	// assumed to have none of the effects the ghost state tracks (listed per method)
	meths, _ := e.effectMethods()
	if meths[m.Name()] {
		e.unsupported("interface method %s shares its name with a method that has a ghost effect and needs its own assumed contract", full)
	}
	e.trust("interface method " + full + " has no contract: summarised as 'may change any non-ghost state, unknown result, no ghost effect'")
	saved := map[string]T{}
	for name, sort := range e.heapSort {
		if isGhostHeap(name) {
			saved[name] = e.heap(st, name, sort)
		}
	}
	e.havocAll(st)
	for name, t := range saved {
		st.heaps[name] = t
	}
	return e.freshOfType(st, sig.Results(), "m_"+m.Name())
}

// ---------------------------------------------------------------------------------------------
// Contracts at call sites

func (e *Engine) clauseFunc(c *Contract, cl *Clause) *ssa.Function {
	if cl.Broken != "" {
		e.unsupported("the contract of %s no longer applies to the code: %s", c.Key, cl.Broken)
	}
	g := e.P.GenFunc(c, cl)
	if g == nil {
		e.unsupported("generated function %s missing (contract %s)", cl.Gen, c.Key)
	}
	return g
}

func calleeLabel(c *Contract) string { return c.Key }

func (e *Engine) applyContract(fr *Frame, st *State, c *Contract, fn *ssa.Function, sig *types.Signature, args []Val, pos token.Pos) Val {
	if fn != nil && fn.Origin() != nil && len(fn.TypeArgs()) > 0 {
		// generic callee: spec functions are evaluated with the instance's type arguments
		m := map[*types.TypeParam]types.Type{}
		tps := fn.Origin().TypeParams()
		for i := 0; i < tps.Len() && i < len(fn.TypeArgs()); i++ {
			m[tps.At(i)] = fn.TypeArgs()[i]
		}
		wrap := e.newFrame(fr.fn, fr)
		wrap.vals = fr.vals
		wrap.binds = fr.binds
		wrap.spec = fr.spec
		wrap.tsubst = m
		wrap.contract = fr.contract
		wrap.entry = fr.entry
		wrap.params = fr.params
		wrap.loopHead = fr.loopHead
		wrap.blockPC = fr.blockPC
		wrap.curBlock = fr.curBlock
		wrap.condFrames = fr.condFrames
		prev := e.cur
		e.cur = wrap
		defer func() { e.cur = prev }()
		fr = wrap
	}
	if c.Extern || c.Trusted {
		e.trust(fmt.Sprintf("assumed contract: %s (%s:%d)", c.Key, shortPath(c.File), c.Line))
	}
	want := len(c.Params)
	if c.RecvType != "" {
		want++
	}
	if len(args) != want {
		e.unsupported("contract %s declares %d parameters, call has %d", c.Key, want, len(args))
	}
	pre := st.clone()
	for _, cl := range c.Clauses {
		if cl.Kind != "requires" {
			continue
		}
		g := e.evalSpec(fr, e.clauseFunc(c, cl), args, st, nil)
		e.oblige(st, "pre", calleeLabel(c)+":"+clauseLabel(cl), g, pos)
	}
	// the callee may allocate
	if !c.Pure {
		e.bumpTime(st)
	}
	// frame
	prevPre := e.callPreTime
	e.callPreTime = pre.time().S
	e.havocModifies(fr, st, c, args)
	e.callPreTime = prevPre
	// results
	var results []Val
	nres := sig.Results().Len()
	if c.Pure {
		r := e.uninterpCall("pure_"+c.ID+"_"+sanitize(c.PkgPath[strings.LastIndex(c.PkgPath, "/")+1:]), T{}, pureArgs(e, args), sig)
		results = unpackResults(r, nres)
		// a pure function allocates nothing observable: what it returns for arguments that
		// existed at entry existed at entry as well
		argsOld := tTrue
		for _, a := range args {
			if t, ok := a.(T); ok {
				argsOld = tAnd(argsOld, e.isOld(t))
			}
		}
		for i, rv := range results {
			e.assumeTypeInv(st, rv, sig.Results().At(i).Type())
			if t, ok := rv.(T); ok && e.inlineTerms == 0 {
				e.assume(st, tImp(argsOld, e.isOld(t)))
			}
		}
	} else {
		for i := 0; i < nres; i++ {
			results = append(results, e.freshOfType(st, sig.Results().At(i).Type(), "r_"+c.FuncName))
		}
	}
	if len(c.Results) != nres {
		e.unsupported("contract %s declares %d results, function has %d", c.Key, len(c.Results), nres)
	}
	full := append(append([]Val{}, args...), results...)
	for _, cl := range c.Clauses {
		if cl.Kind != "effect" {
			continue
		}
		g := e.clauseFunc(c, cl)
		nf := e.newFrame(g, fr)
		nf.oldState = pre
		for i, p := range g.Params {
			nf.vals[p] = full[i]
		}
		out, _ := e.runFunction(nf, st.clone())
		if out == nil {
			st.pc = tFalse
		} else {
			for k := range out.cells {
				if k.frame == nf.id {
					delete(out.cells, k)
				}
			}
			st.assign(out)
		}
	}
	for _, cl := range c.Clauses {
		if cl.Kind != "ensures" {
			continue
		}
		// GvcFresh in a callee's post-condition means "allocated by this call": at the call site
		// that is "not older than the clock before the call" (the callee proved it against its own
		// entry clock), which also separates the object from everything the caller already holds
		prevSince := e.freshSince
		e.freshSince = pre.time().S
		g := e.evalSpec(fr, e.clauseFunc(c, cl), full, st, pre)
		e.freshSince = prevSince
		e.assume(st, g)
	}
	return packResults(sig, results)
}

func pureArgs(e *Engine, args []Val) []Val { return args }

func shortPath(p string) string {
	p = strings.TrimPrefix(p, "/repo/")
	return p
}

// evalSpec evaluates a generated boolean/int spec function on a copy of st.
func (e *Engine) evalSpec(fr *Frame, gen *ssa.Function, args []Val, st *State, old *State) T {
	if len(gen.Params) != len(args) {
		e.unsupported("spec function %s takes %d parameters, %d given", gen.Name(), len(gen.Params), len(args))
	}
	e.noOblig++
	defer func() { e.noOblig-- }()
	nf := e.newFrame(gen, fr)
	nf.spec = true
	if old != nil {
		nf.oldState = old
	}
	for i, p := range gen.Params {
		nf.vals[p] = args[i]
	}
	work := st.clone()
	work.pc = tTrue // the caller guards the result with its own path condition
	out, res := e.runFunction(nf, work)
	if out == nil || len(res) != 1 {
		e.unsupported("spec function %s does not return a value", gen.Name())
	}
	st.adoptSegs(out)
	t, ok := res[0].(T)
	if !ok {
		e.unsupported("spec function %s returns %T", gen.Name(), res[0])
	}
	return t
}

// evalSpecVals evaluates a generated function returning []any (modifies clauses) and returns
// the engine values stored in the literal.
func (e *Engine) evalModifies(fr *Frame, gen *ssa.Function, args []Val, st *State) []Val {
	e.noOblig++
	defer func() { e.noOblig-- }()
	nf := e.newFrame(gen, fr)
	nf.spec = true
	for i, p := range gen.Params {
		nf.vals[p] = args[i]
	}
	work := st.clone()
	// run and then read back the elements of the returned slice from the callee's final state
	prev := e.cur
	e.cur = nf
	rets, _ := e.runBlocks(nf, gen.Blocks[0], work, nil, nil)
	e.cur = prev
	if len(rets) != 1 {
		e.unsupported("modifies function with %d returns", len(rets))
	}
	st.adoptSegs(rets[0].st)
	// find stores into the literal array: scan instructions for Store to IndexAddr of the varargs array
	var out []Val
	for _, b := range gen.Blocks {
		for _, in := range b.Instrs {
			s, ok := in.(*ssa.Store)
			if !ok {
				continue
			}
			if _, ok := s.Addr.(*ssa.IndexAddr); !ok {
				continue
			}
			v := s.Val
			if mi, ok := v.(*ssa.MakeInterface); ok {
				if c, isConst := mi.X.(*ssa.Const); isConst && c.Value != nil {
					out = append(out, c)
					continue
				}
				out = append(out, modItem{e.val(nf, mi.X), mi.X.Type()})
				continue
			}
			out = append(out, modItem{e.val(nf, v), v.Type()})
		}
	}
	return out
}

type modItem struct {
	v Val
	t types.Type
}

// havocModifies applies the modifies clauses of c (evaluated in the pre-state).
func (e *Engine) havocModifies(fr *Frame, st *State, c *Contract, args []Val) {
	e.modPkg = c.PkgPath
	defer func() { e.modPkg = "" }()
	for _, cl := range c.Clauses {
		if cl.Kind != "modifies" {
			continue
		}
		items := e.evalModifies(fr, e.clauseFunc(c, cl), args, st)
		e.applyModItems(st, items, func(h string, loc func(x T) T, exact []T) {
			// caller side: heap h is replaced by a fresh array equal to the old one outside the footprint
			old := e.heap(st, h, e.heapSort[h])
			if exact != nil {
				for _, r := range exact {
					e.recStore(st, h, r)
				}
			} else {
				e.recWild(h)
			}
			nv := e.fresh(old.Sort, "hv_"+h)
			if loc != nil {
				// (objects the callee allocates are outside the frame: what the pre-heap "holds"
				// for a reference that did not exist yet is junk, and equating the new contents
				// with it contradicted the callee's post-condition about them - found on pkDiff,
				// where it made the path through AddOrSkip(nil, x) infeasible, DESIGN section 10)
				guard := "(not " + loc(T{"x", sRef}).S + ")"
				if e.callPreTime != "" && os.Getenv("GVC_OLDFRAME") == "" {
					guard = fmt.Sprintf("(and %s (< (newid x) %s))", guard, e.callPreTime)
				}
				e.emit(fmt.Sprintf("(assert (forall ((x Ref)) (! (=> %s (= (select %s x) (select %s x))) :pattern ((select %s x)))))", guard, nv.S, old.S, nv.S))
			}
			st.heaps[h] = nv
			e.heapWf(st, nv)
			e.heapOlderThanNow(st, nv)
		}, nil)
	}
}

// applyModItems interprets the ["kind", value, ...] list of a modifies clause.  For every
// heap that may change, onHeap is called with a predicate describing the footprint (nil =
// the whole heap).  collect, when non-nil, only records the footprint (callee-side frame check).
func (e *Engine) applyModItems(st *State, items []Val, onHeap func(h string, inFootprint func(x T) T, exact []T), collect *footprint) {
	fp := &footprint{heaps: map[string][]func(x T) T{}}
	i := 0
	for i < len(items) {
		k, ok := items[i].(*ssa.Const)
		if !ok {
			e.unsupported("malformed modifies list")
		}
		kind := strings.Trim(k.Value.ExactString(), `"`)
		i++
		switch {
		case kind == "nothing" || kind == "":
		case kind == "everything":
			fp.everything = true
		case strings.HasPrefix(kind, "heap("):
			fp.add(strings.TrimSuffix(strings.TrimPrefix(kind, "heap("), ")"), nil)
		case strings.HasPrefix(kind, "struct("):
			e.structFootprint(fp, strings.TrimSuffix(strings.TrimPrefix(kind, "struct("), ")"))
		case kind == "obj" || kind == "loc" || kind == "elems":
			it := items[i].(modItem)
			i++
			e.footprintOf(st, fp, kind, it)
		default:
			e.unsupported("modifies kind %q", kind)
		}
	}
	if collect != nil {
		*collect = *fp
		return
	}
	if fp.everything {
		e.havocAll(st)
		return
	}
	for _, h := range sortedKeys(fp.heaps) {
		preds := fp.heaps[h]
		whole := false
		for _, p := range preds {
			if p == nil {
				whole = true
			}
		}
		if _, known := e.heapSort[h]; !known {
			continue
		}
		if whole {
			onHeap(h, nil, nil)
			continue
		}
		ps := preds
		var exact []T
		if len(fp.exact[h]) == len(ps) {
			exact = fp.exact[h]
		}
		onHeap(h, func(x T) T {
			r := tFalse
			for _, p := range ps {
				r = tOr(r, p(x))
			}
			return r
		}, exact)
	}
}

type footprint struct {
	everything bool
	heaps      map[string][]func(x T) T // nil entry = whole heap
	exact      map[string][]T          // objects named exactly by the predicates of heaps[h] (same length when all are exact)
}

func (f *footprint) add(h string, p func(x T) T) { f.heaps[h] = append(f.heaps[h], p) }

// addObj: the footprint in heap h is exactly object r.
func (f *footprint) addObj(h string, r T) {
	f.heaps[h] = append(f.heaps[h], func(x T) T { return tEq(x, r) })
	if f.exact == nil {
		f.exact = map[string][]T{}
	}
	f.exact[h] = append(f.exact[h], r)
}

// footprintOf adds the heaps/locations named by one modifies item.
func (e *Engine) footprintOf(st *State, fp *footprint, kind string, it modItem) {
	switch kind {
	case "obj":
		r, ok := it.v.(T)
		if !ok || r.Sort != sRef {
			if ok && r.Sort == sIface {
				r = T{app("iref", r), sRef}
			} else {
				e.unsupported("modifies *x: x is %T", it.v)
			}
		}
		pt := deref(it.t)
		e.objFootprint(st, fp, r, pt)
	case "loc":
		switch p := it.v.(type) {
		case *FieldPtr:
			e.heapSort[p.heap] = arraySort(sRef, e.sortOf(p.ftype))
			fp.addObj(p.heap, p.base)
		case *GlobalPtr:
			e.heapSort[e.globalName(p.g)] = e.sortOf(deref(p.g.Type()))
			fp.add(e.globalName(p.g), nil)
		case T:
			e.objFootprint(st, fp, p, deref(it.t))
		default:
			e.unsupported("modifies location %T", it.v)
		}
	case "elems":
		s, ok := it.v.(T)
		if !ok || s.Sort != sSlice {
			e.unsupported("modifies elems(x): x is %T", it.v)
		}
		et := it.t.Underlying().(*types.Slice).Elem()
		base := T{app("sbase", s), sRef}
		if _, isS := isStruct(et); isS {
			skey, sty := e.structKeyOf(et)
			for i := 0; i < sty.NumFields(); i++ {
				hn := e.fieldHeapName(skey, sty, i)
				e.heapSort[hn] = arraySort(sRef, e.sortOf(sty.Field(i).Type()))
				fp.add(hn, func(x T) T {
					return T{fmt.Sprintf("(and (= (rkind %s) 1) (= (ebase %s) %s))", x.S, x.S, base.S), sBool}
				})
			}
			return
		}
		hn, hs := e.elemHeap(et)
		e.heapSort[hn] = hs
		fp.addObj(hn, base)
	}
}

func (e *Engine) objFootprint(st *State, fp *footprint, r T, pt types.Type) {
	if s, ok := isStruct(pt); ok && !e.isIntrinsicStruct(pt) {
		skey := e.typeKey(pt)
		for i := 0; i < s.NumFields(); i++ {
			ft := s.Field(i).Type()
			if _, ok := isStruct(ft); ok && !e.isIntrinsicStruct(ft) {
				e.objFootprint(st, fp, e.fldRef(r, skey, s, i), ft)
				continue
			}
			hn := e.fieldHeapName(skey, s, i)
			e.heapSort[hn] = arraySort(sRef, e.sortOf(ft))
			fp.addObj(hn, r)
		}
		return
	}
	if mt, ok := pt.Underlying().(*types.Map); ok {
		_ = mt
	}
	hn, hs := e.pointeeHeap(pt)
	e.heapSort[hn] = hs
	fp.addObj(hn, r)
}

// purePkgs: library packages whose exported functions neither read nor write program state
// (other than through their arguments, which they do not modify).
var purePkgs = map[string]bool{"time": true, "strings": true, "strconv": true, "unicode": true, "unicode/utf8": true, "path/filepath": true, "path": true, "math": true, "regexp": true, "slices": false}

// pureLibCall: results are an uninterpreted function of the arguments when all of them are
// scalars (functional consistency is then sound); otherwise fresh values.
func (e *Engine) pureLibCall(fr *Frame, st *State, fn *ssa.Function, full string, args []Val) Val {
	e.trust("library package " + fn.String()[:strings.LastIndex(fn.String(), ".")] + ": functions are side-effect free")
	sig := fn.Signature
	scalar := true
	for _, a := range args {
		t, ok := a.(T)
		if !ok || !(t.Sort == sInt || t.Sort == sStr || t.Sort == sBool || t.Sort == sBV || t.Sort == sReal) {
			scalar = false
		}
	}
	if full == "time.Now" {
		scalar = false
	}
	if scalar && sig.Results().Len() > 0 {
		r := e.uninterpCall("lib_"+sanitize(full), T{}, args, sig)
		for i, rv := range unpackResults(r, sig.Results().Len()) {
			e.assumeTypeInv(st, rv, sig.Results().At(i).Type())
		}
		return r
	}
	return e.freshOfType(st, sig.Results(), "lib_"+fn.Name())
}

// structFootprint: every field heap of the named struct type (all objects of that type).
func (e *Engine) structFootprint(fp *footprint, name string) {
	var t types.Type
	pkgPath := e.modPkg
	if pkgPath == "" && e.topContract != nil {
		pkgPath = e.topContract.PkgPath
	}
	if i := strings.LastIndex(name, "."); i >= 0 {
		for path, pk := range e.P.AllPkgs {
			if pk.Name == name[:i] || path == name[:i] {
				if o := pk.Types.Scope().Lookup(name[i+1:]); o != nil {
					t = o.Type()
				}
			}
		}
	} else if pk := e.P.AllPkgs[pkgPath]; pk != nil {
		if o := pk.Types.Scope().Lookup(name); o != nil {
			t = o.Type()
		}
	}
	if t == nil {
		e.unsupported("modifies struct(%s): type not found", name)
	}
	var add func(t types.Type)
	add = func(t types.Type) {
		s, ok := isStruct(t)
		if !ok {
			return
		}
		skey := e.typeKey(t)
		for i := 0; i < s.NumFields(); i++ {
			ft := s.Field(i).Type()
			if _, ok := isStruct(ft); ok && !e.isIntrinsicStruct(ft) {
				add(ft)
				continue
			}
			hn := e.fieldHeapName(skey, s, i)
			e.heapSort[hn] = arraySort(sRef, e.sortOf(ft))
			fp.add(hn, nil)
		}
	}
	add(t)
}

// recCall: a call to a recursive spec function becomes an application of an SMT recursive
// function whose extra leading arguments are the heaps its body reads.
func (e *Engine) recCall(fr *Frame, st *State, fn *ssa.Function, args []Val, pos token.Pos) Val {
	if ri, building := e.recBuilding[fn]; building {
		if ri == nil {
			// analysis pass (heap reads): the result is irrelevant
			return T{"rec_analysis", e.sortOf(fn.Signature.Results().At(0).Type())}
		}
		ri.selfCalls++
		return e.recAppFuel(ri, st, args, "fu")
	}
	ri := e.recInfo[fn]
	if ri == nil {
		ri = e.buildRec(fr, fn)
		e.recInfo[fn] = ri
	}
	return e.recApp(ri, st, args)
}

// recApp applies a recursive spec function from outside its own definition: with fuel for
// two unfoldings (see buildRec).
func (e *Engine) recApp(ri *recInfo, st *State, args []Val) Val {
	return e.recAppFuel(ri, st, args, "(FS (FS FZ))")
}

func (e *Engine) recAppFuel(ri *recInfo, st *State, args []Val, fuel string) Val {
	var ts []T
	if ri.fuel {
		ts = append(ts, T{fuel, "Fuel"})
	}
	for i, h := range ri.heaps {
		ts = append(ts, e.heap(st, h, ri.sorts[i]))
	}
	for _, a := range args {
		t, ok := a.(T)
		if !ok {
			e.unsupported("argument of recursive spec function %s is %T", ri.name, a)
		}
		ts = append(ts, t)
	}
	return T{app(ri.name, ts...), ri.result}
}

func (e *Engine) buildRec(fr *Frame, fn *ssa.Function) *recInfo {
	if fn.Signature.Results().Len() != 1 {
		e.unsupported("recursive spec function %s must have one result", fn.Name())
	}
	// pass 1: which heaps does the body read?
	e.recBuilding[fn] = nil
	savedRead := e.readRec
	e.readRec = map[string]bool{}
	e.dry++
	e.noOblig++
	func() {
		s := &State{pc: tTrue, cells: map[cellKey]Val{}, heaps: map[string]T{}, defers: map[int][]*deferEntry{}}
		e.epochSeq++
		s.epoch = e.epochSeq
		nf := e.newFrame(fn, fr)
		nf.spec = true
		for _, p := range fn.Params {
			nf.vals[p] = T{e.freshName("ra"), e.sortOf(p.Type())}
		}
		e.runFunction(nf, s)
	}()
	e.noOblig--
	e.dry--
	reads := e.readRec
	e.readRec = savedRead
	ri := &recInfo{name: "rec_" + sanitize(fn.Pkg.Pkg.Name()) + "_" + fn.Name(), result: e.sortOf(fn.Signature.Results().At(0).Type()), fuel: e.P.RecFuel[fn]}
	for _, h := range sortedKeys(reads) {
		if strings.HasPrefix(h, "IT_") {
			continue
		}
		ri.heaps = append(ri.heaps, h)
		ri.sorts = append(ri.sorts, e.heapSort[h])
	}
	// pass 2: the body as a term over bound heaps and parameters
	e.recBuilding[fn] = ri
	var params []string
	s := &State{pc: tTrue, cells: map[cellKey]Val{}, heaps: map[string]T{}, defers: map[int][]*deferEntry{}}
	e.epochSeq++
	s.epoch = e.epochSeq
	for i, h := range ri.heaps {
		v := fmt.Sprintf("H%d", i)
		s.heaps[h] = T{v, ri.sorts[i]}
		params = append(params, fmt.Sprintf("(%s %s)", v, ri.sorts[i]))
	}
	nf := e.newFrame(fn, fr)
	nf.spec = true
	for i, p := range fn.Params {
		v := fmt.Sprintf("a%d", i)
		nf.vals[p] = T{v, e.sortOf(p.Type())}
		params = append(params, fmt.Sprintf("(%s %s)", v, e.sortOf(p.Type())))
	}
	e.inlineTerms++
	e.noOblig++
	savedDry := e.dry
	e.dry = 0
	before := len(s.heaps)
	e.pushLets()
	out, res := e.runFunction(nf, s)
	e.dry = savedDry
	e.noOblig--
	e.inlineTerms--
	delete(e.recBuilding, fn)
	if out == nil || len(res) != 1 {
		e.unsupported("recursive spec function %s does not return", fn.Name())
	}
	if len(out.heaps) != before {
		e.unsupported("recursive spec function %s touches heaps not found by the analysis pass", fn.Name())
	}
	body := res[0].(T)
	body.S = e.popLets(body.S)
	// The definition is given to the solvers as an uninterpreted function with a fuel argument
	// and an unfolding axiom that consumes one unit of fuel (the encoding Dafny uses): a call
	// from a contract can be unfolded twice, which is what one loop iteration or a base case
	// needs, and never indefinitely (define-fun-rec made the solvers unfold symbolic-depth
	// recursions without end).  A spec function that does not call itself is a plain macro.
	var sorts, argNames []string
	for _, p := range params {
		f := strings.Fields(strings.Trim(p, "()"))
		argNames = append(argNames, f[0])
		sorts = append(sorts, strings.TrimSuffix(strings.TrimPrefix(p, "("+f[0]+" "), ")"))
	}
	if !e.P.RecFuel[fn] {
		// default: the definition itself (define-fun-rec; the solvers unfold it on demand).
		// `rec name fuel` selects the fuel axiomatisation below instead, for definitions the
		// solvers would otherwise unfold without end (symbolic depth under quantifiers).
		e.emitDecl(fmt.Sprintf("(define-fun-rec %s (%s) %s %s)", ri.name, strings.Join(params, " "), ri.result, body.S))
		e.trust("recursive spec function " + fn.Name() + " is well-founded (its definition is given to the solver as define-fun-rec)")
		return ri
	}
	if ri.selfCalls == 0 {
		// no recursion: (FS fu)-applications never occur, so the fuel argument is ignored
		e.emitDecl(fmt.Sprintf("(define-fun %s ((fu Fuel) %s) %s %s)", ri.name, strings.Join(params, " "), ri.result, body.S))
		return ri
	}
	e.emitDecl(fmt.Sprintf("(declare-fun %s (Fuel %s) %s)", ri.name, strings.Join(sorts, " "), ri.result))
	lhs := fmt.Sprintf("(%s (FS fu) %s)", ri.name, strings.Join(argNames, " "))
	e.emitDecl(fmt.Sprintf("(assert (forall ((fu Fuel) %s) (! (= %s %s) :pattern (%s))))", strings.Join(params, " "), lhs, body.S, lhs))
	e.emitDecl(fmt.Sprintf("(assert (forall ((fu Fuel) %s) (! (= %s (%s fu %s)) :pattern (%s))))", strings.Join(params, " "), lhs, ri.name, strings.Join(argNames, " "), lhs))
	e.trust("recursive spec function " + fn.Name() + " is well-founded (it is axiomatised by its unfolding equation, with fuel for two unfoldings per use)")
	return ri
}

// isOld: every reference directly inside v denotes an object that existed at function entry.
func (e *Engine) isOld(v T) T {
	switch v.Sort {
	case sRef:
		return T{fmt.Sprintf("(= (newid %s) 0)", v.S), sBool}
	case sSlice:
		return T{fmt.Sprintf("(= (newid (sbase %s)) 0)", v.S), sBool}
	case sIface:
		return T{fmt.Sprintf("(=> ((_ is if_ref) %s) (= (newid (iref %s)) 0))", v.S, v.S), sBool}
	}
	return tTrue
}

func isGhostHeap(name string) bool {
	return strings.HasPrefix(name, "G_") && strings.Contains(name, "_Gvc") || strings.HasPrefix(name, "F_") && strings.Contains(name, "_Gvc")
}

// effectMethods: names of interface methods / function types whose assumed contract has a ghost effect.
func (e *Engine) effectMethods() (map[string]bool, bool) {
	if e.effMethods != nil {
		return e.effMethods, e.effFuncTypes
	}
	e.effMethods = map[string]bool{}
	for key, c := range e.P.Externs {
		has := false
		for _, cl := range c.Clauses {
			if cl.Kind == "effect" {
				has = true
			}
		}
		if !has {
			continue
		}
		if strings.HasPrefix(key, "functype:") {
			e.effFuncTypes = true
			continue
		}
		e.effMethods[c.FuncName] = true
	}
	return e.effMethods, e.effFuncTypes
}

// mayTouchGhost: can fn (transitively, over static calls and closures) reach a call that
// has a ghost effect?  Dynamic calls of unknown function values count as "yes".
func (e *Engine) mayTouchGhost(fn *ssa.Function, seen map[*ssa.Function]bool) bool {
	if seen[fn] {
		return false
	}
	seen[fn] = true
	if c := e.P.ByFunc[fn]; c != nil {
		for _, cl := range c.Clauses {
			if cl.Kind == "effect" {
				return true
			}
			if cl.Kind == "modifies" && strings.Contains(cl.Expr, "Gvc") {
				return true
			}
		}
		if c.Trusted {
			return false
		}
	}
	pk := fn.Pkg
	if pk == nil && fn.Origin() != nil {
		pk = fn.Origin().Pkg
	}
	if len(fn.Blocks) == 0 || pk != nil && !e.inModule(pk.Pkg.Path()) && fn.Parent() == nil {
		// library function: assumed not to call into the module except through the function
		// values it is given (closures are scanned where they are created)
		return false
	}
	meths, _ := e.effectMethods()
	for _, b := range fn.Blocks {
		for _, in := range b.Instrs {
			switch x := in.(type) {
			case *ssa.MakeClosure:
				if f, ok := x.Fn.(*ssa.Function); ok && e.mayTouchGhost(f, seen) {
					return true
				}
			case ssa.CallInstruction:
				c := x.Common()
				if c.IsInvoke() {
					if meths[c.Method.Name()] {
						return true
					}
					continue
				}
				switch f := c.Value.(type) {
				case *ssa.Builtin:
				case *ssa.Function:
					if e.mayTouchGhost(f, seen) {
						return true
					}
				case *ssa.MakeClosure:
					if g, ok := f.Fn.(*ssa.Function); ok && e.mayTouchGhost(g, seen) {
						return true
					}
				default:
					return true // dynamic call of an unknown function value
				}
			}
		}
	}
	return false
}
