package main

import (
	"runtime/pprof"
	"flag"
	"fmt"
	"os"
	"sort"
	"strings"
	"time"

	"gvc/internal/eng"
)

func main() {
	if p := os.Getenv("GVC_CPUPROF"); p != "" {
		if f, err := os.Create(p); err == nil {
			pprof.StartCPUProfile(f)
			defer pprof.StopCPUProfile()
		}
	}
	if len(os.Args) < 2 {
		fmt.Fprintln(os.Stderr, "usage: gvc vc|check ...")
		os.Exit(2)
	}
	switch os.Args[1] {
	case "vc":
		vcCmd(os.Args[2:])
	case "check":
		checkCmd(os.Args[2:])
	case "replay":
		replayCmd(os.Args[2:])
	default:
		fmt.Fprintln(os.Stderr, "unknown command")
		os.Exit(2)
	}
}

// vc: generate and discharge the obligations of the contracted functions of some packages.
func vcCmd(args []string) {
	fs := flag.NewFlagSet("vc", flag.ExitOnError)
	dir := fs.String("dir", "/repo", "module directory")
	only := fs.String("func", "", "only functions whose key contains this")
	keep := fs.Bool("keep", false, "keep SMT files")
	work := fs.String("work", "/tmp/gvc-work", "work dir")
	timeout := fs.Int("t", 10, "timeout seconds")
	verbose := fs.Bool("v", false, "verbose")
	audit := fs.Bool("audit", false, "after discharging, ask for every obligation whether its context alone is contradictory (vacuity audit; dead code shows up too)")
	spec := fs.String("spec", "", "extra contract files: pkgpath=file[,pkgpath=file…] (development: contracts kept outside the repository)")
	fs.Parse(args)
	extra := map[string][]string{}
	for _, kv := range strings.Split(*spec, ",") {
		if i := strings.Index(kv, "="); i > 0 {
			extra[kv[:i]] = append(extra[kv[:i]], kv[i+1:])
		}
	}
	p, err := eng.Load(eng.LoadConfig{ModDir: *dir, Patterns: fs.Args(), ExtraSpecs: extra})
	if err != nil {
		fmt.Fprintln(os.Stderr, "load:", err)
		os.Exit(2)
	}
	var keys []string
	for k := range p.Contracts {
		keys = append(keys, k)
	}
	sort.Strings(keys)
	bad := 0
	for _, k := range keys {
		c := p.Contracts[k]
		if *only != "" && !strings.Contains(k, *only) {
			continue
		}
		if c.Trusted {
			continue
		}
		t0 := time.Now()
		res := eng.VerifyFunction(p, c)
		if *verbose {
			fmt.Printf("vcgen %v\n", time.Since(t0))
			pprof.StopCPUProfile()
		}
		if res.Err != "" {
			fmt.Printf("ERROR %s: %s\n", k, res.Err)
			bad++
		}
		eng.Discharge(res, eng.SolverConfig{WorkDir: *work, TimeoutS: *timeout, KeepFiles: *keep})
		ok := 0
		for _, o := range res.Obls {
			if o.Status == "unsat" {
				ok++
				if *verbose {
					fmt.Printf("  ok   %-60s %s %dms\n", o.Name, o.Solver, o.Millis)
				}
			} else {
				bad++
				fmt.Printf("  FAIL %-60s %s %s %dms (%s)\n", o.Name, o.Status, o.Solver, o.Millis, o.Pos)
				if *verbose {
					fmt.Println(o.Model)
				}
			}
		}
		for _, o := range res.Covers {
			if o.Status == "unsat" {
				bad++
				fmt.Printf("  VACUOUS %s\n", o.Name)
			}
		}
		if *audit {
			cov := &eng.FuncResult{Func: res.Func, Lines: res.Lines, Covers: eng.ContextCovers(res)}
			eng.Discharge(cov, eng.SolverConfig{WorkDir: *work, TimeoutS: 3})
			for _, o := range cov.Covers {
				if o.Status == "unsat" {
					fmt.Printf("  CONTRADICTORY-CONTEXT %s (%s)\n", o.Name, o.Pos)
				}
			}
		}
		fmt.Printf("%s: %d/%d obligations discharged, %d lines\n", res.Func, ok, len(res.Obls), len(res.Lines))
		for _, n := range res.Notes {
			fmt.Println("  note:", n)
		}
	}
	if bad > 0 {
		os.Exit(1)
	}
}
