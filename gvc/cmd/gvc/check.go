package main

import (
	"encoding/json"
	"flag"
	"fmt"
	"os"
	"os/exec"
	"path/filepath"
	"regexp"
	"sort"
	"strconv"
	"strings"
	"time"

	"gvc/internal/eng"
)

// PropConfig is /verif/props/<id>.json.
type PropConfig struct {
	ID      string       `json:"id"`
	Loads   []PropLoad   `json:"loads"`
	Bounded []BoundedCmd `json:"bounded,omitempty"`
	Notes   []string     `json:"assumptions,omitempty"`
}

// PropLoad is one module load with the functions under contract that matter to the property.
type PropLoad struct {
	ModDir   string     `json:"mod_dir"`
	Patterns []string   `json:"patterns"`
	Funcs    []PropFunc `json:"funcs"`
	Env      []string   `json:"env,omitempty"`
}

// PropFunc selects obligations of one function.
type PropFunc struct {
	Pkg     string   `json:"pkg"`
	Key     string   `json:"key"`
	Include []string `json:"include,omitempty"` // regexps on "kind:label"; empty = all
	Exclude []string `json:"exclude,omitempty"`
}

// BoundedCmd is a bounded stand-in (never counted as proved).
type BoundedCmd struct {
	Name  string `json:"name"`
	Bound string `json:"bound"`
	Quick string `json:"quick"`
	Thor  string `json:"thorough"`
}

// Ledger is /verif/ledger/<id>.json: the obligations that discharged on the pinned tree.
type Ledger struct {
	Property    string   `json:"property"`
	Obligations []string `json:"obligations"`
}

// KnownFindings is /verif/known_findings.json.
type KnownFindings struct {
	Findings []Finding `json:"findings"`
}

// Finding is one recorded defect (open) or repaired defect (fixed).
type Finding struct {
	ID         string `json:"id,omitempty"`
	Status     string `json:"status"` // open | fixed
	Property   string `json:"property"`
	Obligation string `json:"obligation"`
	What       string `json:"what"`
	Commit     string `json:"commit,omitempty"`
	Line       string `json:"line,omitempty"` // the "fixed: property=<id> <commit> <what failed>" record
}

type oblResult struct {
	Name     string `json:"name"`
	Status   string `json:"status"`
	Solver   string `json:"solver"`
	Millis   int64  `json:"ms"`
	Instance int    `json:"instance"`
	Pos      string `json:"pos,omitempty"`
}

func verifRoot() string {
	if r := os.Getenv("VERIF_ROOT"); r != "" {
		return r
	}
	return "/verif"
}

func checkCmd(args []string) {
	fs := flag.NewFlagSet("check", flag.ExitOnError)
	prop := fs.String("p", "", "property id")
	tier := fs.String("tier", "", "quick|thorough")
	writeLedger := fs.Bool("write-ledger", false, "rewrite the ledger from this run (developer use)")
	verbose := fs.Bool("v", false, "verbose")
	fs.Parse(args)
	if *tier == "" {
		*tier = os.Getenv("VERIF_TIER")
	}
	if *tier == "" {
		*tier = "quick"
	}
	seed := 0
	if s := os.Getenv("VERIF_SEED"); s != "" {
		seed, _ = strconv.Atoi(s)
	}
	root := verifRoot()
	start := time.Now()
	var cfg PropConfig
	if err := readJSON(filepath.Join(root, "props", *prop+".json"), &cfg); err != nil {
		fatal("config: %v", err)
	}
	var ledger Ledger
	hasLedger := readJSON(filepath.Join(root, "ledger", *prop+".json"), &ledger) == nil
	inLedger := map[string]bool{}
	for _, o := range ledger.Obligations {
		inLedger[o] = true
	}
	var kf KnownFindings
	readJSON(filepath.Join(root, "known_findings.json"), &kf)

	work, _ := os.MkdirTemp("", "gvc-"+*prop+"-")
	defer os.RemoveAll(work)
	scfg := eng.SolverConfig{WorkDir: work, TimeoutS: 45, Parallel: 16}
	if v, err := strconv.Atoi(os.Getenv("GVC_TIMEOUT_S")); err == nil && v > 0 {
		scfg.TimeoutS = v // self-test runs: a shorter limit is enough to see that something fails
	}
	if *tier == "thorough" {
		scfg.TimeoutS = 90
		scfg.Confirm = true
	}

	type funcEvidence struct {
		Func        string `json:"func"`
		File        string `json:"contract"`
		Obligations int    `json:"obligations"`
		Discharged  int    `json:"discharged"`
		Error       string `json:"error,omitempty"`
	}
	var funcs []funcEvidence
	var results []oblResult
	seen := map[string]bool{}    // obligation names generated
	failed := map[string]*eng.Obligation{}
	failedLines := map[string][]string{}
	var trusted = map[string]bool{}
	var notes []string
	var solverMs int64
	var engineErrs []string
	vacuous := []string{}
	covers := 0

	for _, ld := range cfg.Loads {
		p, err := eng.Load(eng.LoadConfig{ModDir: ld.ModDir, Patterns: ld.Patterns, Env: ld.Env, SharedSpecs: sharedSpecs(root)})
		if err != nil {
			engineErrs = append(engineErrs, fmt.Sprintf("load %s: %v", ld.ModDir, err))
			continue
		}
		for _, pf := range ld.Funcs {
			c := p.Contracts[pf.Pkg+"::"+pf.Key]
			if c == nil {
				engineErrs = append(engineErrs, fmt.Sprintf("no contract for %s::%s", pf.Pkg, pf.Key))
				continue
			}
			res := eng.VerifyFunction(p, c)
			fe := funcEvidence{Func: res.Func, File: strings.TrimPrefix(c.File, "/repo/") + ":" + strconv.Itoa(c.Line)}
			if res.Err != "" {
				fe.Error = res.Err
				engineErrs = append(engineErrs, fmt.Sprintf("%s: %s", res.Func, res.Err))
			}
			// select
			inc := compileAll(pf.Include)
			exc := compileAll(pf.Exclude)
			var sel []*eng.Obligation
			for _, o := range res.Obls {
				kl := strings.SplitN(o.Name, "#", 2)[1]
				if len(inc) > 0 && !matchAny(inc, kl) {
					continue
				}
				if matchAny(exc, kl) {
					continue
				}
				sel = append(sel, o)
			}
			res.Obls = sel
			eng.Discharge(res, scfg)
			// second chance for undecided obligations of the ledger: the machine is busy while a
			// whole function is discharged in parallel and the hardest queries are close to the
			// limit; retry them a few at a time with twice the time before calling them failed
			var again []*eng.Obligation
			for _, o := range res.Obls {
				if o.Kind != "cover" && o.Status != "unsat" && o.Status != "sat" && inLedger[o.Name] {
					again = append(again, o)
				}
			}
			if len(again) > 0 && len(again) <= 12 {
				retry := &eng.FuncResult{Func: res.Func, Lines: res.Lines, Obls: again}
				cfg2 := scfg
				cfg2.TimeoutS *= 2
				cfg2.Parallel = 1
				eng.Discharge(retry, cfg2)
			}
			for _, o := range res.Obls {
				seen[o.Name] = true
				results = append(results, oblResult{o.Name, o.Status, o.Solver, o.Millis, o.Instance, shortPos(o.Pos.String())})
				solverMs += o.Millis
				fe.Obligations++
				if o.Status == "unsat" {
					fe.Discharged++
				} else if _, dup := failed[o.Name]; !dup {
					failed[o.Name] = o
					failedLines[o.Name] = res.Lines
				}
			}
			for _, o := range res.Covers {
				covers++
				if o.Status == "unsat" {
					vacuous = append(vacuous, o.Name)
				}
			}
			for _, a := range res.Assumed {
				trusted[a] = true
			}
			notes = append(notes, res.Notes...)
			funcs = append(funcs, fe)
		}
	}

	// named obligations: all instances must discharge
	names := map[string]bool{}
	okNames := map[string]bool{}
	for _, r := range results {
		names[r.Name] = true
	}
	for n := range names {
		okNames[n] = failed[n] == nil
	}
	if *writeLedger {
		var l Ledger
		l.Property = *prop
		for n, ok := range okNames {
			if ok {
				l.Obligations = append(l.Obligations, n)
			}
		}
		sort.Strings(l.Obligations)
		os.MkdirAll(filepath.Join(root, "ledger"), 0o755)
		writeJSON(filepath.Join(root, "ledger", *prop+".json"), l)
		fmt.Printf("ledger: %d obligations written (%d generated)\n", len(l.Obligations), len(names))
		for n, ok := range okNames {
			if !ok {
				fmt.Printf("  not in ledger (undischarged): %s [%s]\n", n, failed[n].Status)
			}
		}
		inLedger = map[string]bool{}
		for _, o := range l.Obligations {
			inLedger[o] = true
		}
		hasLedger = true
	}

	// violations: ledger obligations that failed or vanished
	type violation struct {
		Obl    string
		Reason string
		O      *eng.Obligation
	}
	var viols []violation
	if !hasLedger {
		engineErrs = append(engineErrs, "no ledger for "+*prop)
	}
	ledgerNames := make([]string, 0, len(inLedger))
	for n := range inLedger {
		ledgerNames = append(ledgerNames, n)
	}
	sort.Strings(ledgerNames)
	discharged := 0
	// functions the engine could not process: one violation per function
	brokenFunc := map[string]bool{}
	for _, fe := range funcs {
		if fe.Error != "" {
			brokenFunc[fe.Func] = true
			viols = append(viols, violation{fe.Func + "#engine:function-verifiable", "the function can no longer be brought under its contract: " + fe.Error, nil})
		}
	}
	if len(engineErrs) > 0 && len(funcs) == 0 {
		viols = append(viols, violation{*prop + "#engine:load", strings.Join(engineErrs, "; "), nil})
	}
	for _, n := range ledgerNames {
		fn := strings.SplitN(n, "#", 2)[0]
		switch {
		case !seen[n]:
			if brokenFunc[fn] || len(funcs) == 0 {
				continue // reported once above
			}
			if isFrameName(n) {
				// a heap the function no longer writes generates no frame obligation: writing
				// less is always inside the frame
				discharged++
				continue
			}
			if isSafetyName(n) {
				// safety obligations are named after expression text; the claim is per function:
				// every safety obligation generated from the current text must discharge (below)
				discharged++
				continue
			}
			viols = append(viols, violation{n, "obligation can no longer be generated from the current source (contract clause, loop or function gone)", nil})
		case failed[n] != nil:
			viols = append(viols, violation{n, "solver answer: " + failed[n].Status, failed[n]})
		default:
			discharged++
		}
	}
	// safety obligations with new names (edited expressions) in functions of the ledger
	ledgerFuncs := map[string]bool{}
	for _, n := range ledgerNames {
		ledgerFuncs[strings.SplitN(n, "#", 2)[0]] = true
	}
	for n, o := range failed {
		if !inLedger[n] && isSafetyName(n) && ledgerFuncs[strings.SplitN(n, "#", 2)[0]] {
			viols = append(viols, violation{n, "run-time safety obligation of a function whose safety obligations all discharged on the pinned tree; solver answer: " + o.Status, o})
		}
	}
	sort.Slice(viols, func(i, j int) bool { return viols[i].Obl < viols[j].Obl })
	for _, v := range vacuous {
		viols = append(viols, violation{v, "vacuity: the assumptions at this point are contradictory", nil})
	}
	// undecided (not in the ledger): stderr only
	for n, ok := range okNames {
		if !ok && !inLedger[n] && !isSafetyName(n) {
			fmt.Fprintf(os.Stderr, "UNDECIDED (not in ledger) %s: %s\n", n, failed[n].Status)
		}
	}

	// known findings
	exit := 0
	var violLines []string
	for _, f := range kf.Findings {
		if f.Property == *prop && f.Status == "open" {
			fmt.Printf("KNOWN-FINDING: property=%s %s\n", *prop, f.What)
		}
	}
	os.MkdirAll(filepath.Join(root, "replays", *prop), 0o755)
	for _, v := range viols {
		known := false
		for _, f := range kf.Findings {
			if f.Property == *prop && f.Status == "open" && f.Obligation == v.Obl {
				known = true
			}
		}
		if known {
			continue
		}
		rp := filepath.Join(root, "replays", *prop, sanitizeName(v.Obl)+".json")
		rep := map[string]interface{}{"property": *prop, "obligation": v.Obl, "reason": v.Reason}
		suffix := " no-failing-input-found"
		if v.O != nil {
			smt := strings.TrimSuffix(rp, ".json") + ".smt2"
			os.WriteFile(smt, []byte(eng.Script(failedLines[v.Obl], v.O, true)), 0o644)
			rep["smt2"] = smt
			rep["solver_status"] = v.O.Status
			rep["solver"] = v.O.Solver
			rep["position"] = v.O.Pos.String()
			rep["solver_output"] = truncate(v.O.Model, 4000)
			// counterexample hunt: drop quantified assumptions, ask for a model
			if m := eng.HuntModel(failedLines[v.Obl], v.O, work); m != "" {
				rep["candidate_model"] = truncate(m, 6000)
				rep["candidate_model_note"] = "model of the obligation with all quantified assumptions removed; a candidate input, to be confirmed by replay on the real code"
			}
		}
		if ok, out := tryReplay(root, *prop, v.Obl, rp); ok {
			rep["replay_confirmed"] = true
			rep["replay_output"] = truncate(out, 4000)
			suffix = ""
		} else if out != "" {
			rep["replay_output"] = truncate(out, 4000)
		}
		writeJSON(rp, rep)
		line := fmt.Sprintf("VIOLATION property=%s replay=%s obligation=%s%s", *prop, rp, v.Obl, suffix)
		violLines = append(violLines, line)
		exit = 1
	}

	// bounded stand-ins
	type boundedEv struct {
		Name   string `json:"name"`
		Bound  string `json:"bound"`
		Cmd    string `json:"cmd"`
		Exit   int    `json:"exit"`
		Output string `json:"output_tail"`
	}
	var bounded []boundedEv
	for _, b := range cfg.Bounded {
		cmdline := b.Quick
		if *tier == "thorough" && b.Thor != "" {
			cmdline = b.Thor
		}
		if cmdline == "" {
			continue
		}
		c := exec.Command("bash", "-c", cmdline)
		c.Dir = root
		// the open known findings of the property (ids from the committed known_findings.json):
		// a bounded check accepts exactly the inputs of those findings and fails on any other
		var knownIDs []string
		for _, f := range kf.Findings {
			if f.Property == *prop && f.Status == "open" && f.ID != "" {
				knownIDs = append(knownIDs, f.ID)
			}
		}
		c.Env = append(os.Environ(), "GVC_PROP="+*prop, "GVC_TIER="+*tier, "GVC_KNOWN="+strings.Join(knownIDs, ","))
		out, err := c.CombinedOutput()
		ec := 0
		if err != nil {
			ec = 1
		}
		bounded = append(bounded, boundedEv{b.Name, b.Bound, cmdline, ec, truncate(tail(string(out), 20), 3000)})
		if ec != 0 {
			rp := filepath.Join(root, "replays", *prop, "bounded_"+sanitizeName(b.Name)+".json")
			writeJSON(rp, map[string]interface{}{"property": *prop, "bounded_check": b.Name, "bound": b.Bound, "output": truncate(string(out), 8000)})
			violLines = append(violLines, fmt.Sprintf("VIOLATION property=%s replay=%s bounded=%s", *prop, rp, b.Name))
			exit = 1
		}
	}

	// evidence
	var tb []string
	for t := range trusted {
		tb = append(tb, t)
	}
	tb = append(tb, "T-GEN: the VC generator gvc (go/ssa lowering, SMT encoding, loop-frame inference)", "SMT solvers z3 5.1 (z3-new), z3 4.8.12, cvc5 1.0.3")
	sort.Strings(tb)
	var samples []interface{}
	for i, r := range results {
		if i%maxInt(1, len(results)/6) == 0 && len(samples) < 8 {
			samples = append(samples, r)
		}
	}
	byKind := map[string]int{}
	for n := range names {
		k := strings.SplitN(strings.SplitN(n, "#", 2)[1], ":", 2)[0]
		byKind[k]++
	}
	bySolver := map[string]int{}
	for _, r := range results {
		if r.Status == "unsat" {
			bySolver[r.Solver]++
		}
	}
	ev := map[string]interface{}{
		"property_id": *prop,
		"tier":        *tier,
		"seed":        seed,
		"level":       "proof",
		"coverage": map[string]interface{}{
			"obligations":           len(ledgerNames),
			"discharged":            discharged,
			"checker_cmd":           fmt.Sprintf("./bin/gvc check -p %s -tier %s", *prop, *tier),
			"trusted_base":          tb,
			"samples":               samples,
			"obligation_instances":  len(results),
			"obligations_generated": len(names),
			"obligations_by_kind":   byKind,
			"discharged_by_solver":  bySolver,
			"solver_ms_total":       solverMs,
			"functions":             funcs,
			"covers_checked":        covers,
			"vacuous":               vacuous,
			"bounded":               bounded,
			"engine_errors":         engineErrs,
			"notes":                 dedupe(notes),
			"explanation":           "every named obligation of the ledger is regenerated from /repo's current source (go/ssa, NaiveForm) and must be discharged (unsat) by an SMT solver; bounded stand-ins are listed under 'bounded' and are not counted in obligations/discharged",
		},
		"assumptions": append(append([]string{}, cfg.Notes...), tb...),
		"wall_s":      time.Since(start).Seconds(),
		"violations":  len(violLines),
	}
	os.MkdirAll(filepath.Join(root, "evidence"), 0o755)
	writeJSON(filepath.Join(root, "evidence", *prop+".json"), ev)

	if *verbose {
		for _, r := range results {
			if r.Status != "unsat" {
				fmt.Printf("  %-8s %s (%s, %dms) %s\n", r.Status, r.Name, r.Solver, r.Millis, r.Pos)
			}
		}
	}
	fmt.Printf("property %s [%s]: %d/%d ledger obligations discharged (%d generated, %d instances), %d functions, %.1fs\n", *prop, *tier, discharged, len(ledgerNames), len(names), len(results), len(funcs), time.Since(start).Seconds())
	for _, l := range violLines {
		fmt.Println(l)
	}
	if len(names) == 0 || len(funcs) == 0 {
		// vacuity guard: a property description that generates nothing decides nothing
		fmt.Fprintf(os.Stderr, "property %s: no function under contract / no obligation generated (vacuous check)\n", *prop)
		os.RemoveAll(work)
		if exit == 1 {
			os.Exit(1)
		}
		os.Exit(2)
	}
	os.RemoveAll(work)
	os.Exit(exit)
}

func isFrameName(n string) bool {
	p := strings.SplitN(n, "#", 2)
	return len(p) == 2 && (strings.HasPrefix(p[1], "frame:") || strings.HasPrefix(p[1], "loop-frame:"))
}

func isSafetyName(n string) bool {
	p := strings.SplitN(n, "#", 2)
	return len(p) == 2 && (strings.HasPrefix(p[1], "safe-") || strings.HasPrefix(p[1], "no-panic"))
}

func sharedSpecs(root string) []string {
	m, _ := filepath.Glob(filepath.Join(root, "contracts", "*.gvc"))
	sort.Strings(m)
	return m
}

// tryReplay runs a per-obligation replay script if one is registered:
// /verif/replays_src/<prop>/<sanitized obligation>.sh (exit 1 = the real code fails the clause).
func tryReplay(root, prop, obl, rp string) (bool, string) {
	cands := []string{
		filepath.Join(root, "replays_src", prop, sanitizeName(obl)+".sh"),
	}
	// function-level fallback: any obligation of the function
	fn := strings.SplitN(obl, "#", 2)[0]
	cands = append(cands, filepath.Join(root, "replays_src", prop, sanitizeName(fn)+".sh"))
	// property-level fallback: a bounded enumeration of the property's clauses on the real code
	cands = append(cands, filepath.Join(root, "replays_src", prop, "_property.sh"))
	for _, sh := range cands {
		if _, err := os.Stat(sh); err != nil {
			continue
		}
		c := exec.Command("bash", sh, rp)
		c.Dir = root
		c.Env = append(os.Environ(), "GVC_OBLIGATION="+obl)
		out, err := c.CombinedOutput()
		if err != nil {
			if ee, ok := err.(*exec.ExitError); ok && ee.ExitCode() == 1 {
				return true, string(out)
			}
		}
		return false, string(out)
	}
	return false, ""
}

func compileAll(rs []string) []*regexp.Regexp {
	var out []*regexp.Regexp
	for _, r := range rs {
		out = append(out, regexp.MustCompile(r))
	}
	return out
}

func matchAny(rs []*regexp.Regexp, s string) bool {
	for _, r := range rs {
		if r.MatchString(s) {
			return true
		}
	}
	return false
}

func readJSON(path string, v interface{}) error {
	b, err := os.ReadFile(path)
	if err != nil {
		return err
	}
	return json.Unmarshal(b, v)
}

func writeJSON(path string, v interface{}) {
	b, _ := json.MarshalIndent(v, "", " ")
	os.WriteFile(path, append(b, '\n'), 0o644)
}

func fatal(f string, a ...interface{}) {
	fmt.Fprintf(os.Stderr, f+"\n", a...)
	os.Exit(2)
}

func sanitizeName(s string) string {
	var b strings.Builder
	for _, r := range s {
		switch {
		case r >= 'a' && r <= 'z', r >= 'A' && r <= 'Z', r >= '0' && r <= '9', r == '-', r == '.':
			b.WriteRune(r)
		default:
			b.WriteRune('_')
		}
	}
	out := b.String()
	if len(out) > 150 {
		out = out[:150]
	}
	return out
}

func truncate(s string, n int) string {
	if len(s) > n {
		return s[:n] + "…"
	}
	return s
}

func tail(s string, n int) string {
	ls := strings.Split(strings.TrimRight(s, "\n"), "\n")
	if len(ls) > n {
		ls = ls[len(ls)-n:]
	}
	return strings.Join(ls, "\n")
}

func shortPos(s string) string { return strings.TrimPrefix(s, "/repo/") }

func maxInt(a, b int) int {
	if a > b {
		return a
	}
	return b
}

func dedupe(xs []string) []string {
	m := map[string]bool{}
	var out []string
	for _, x := range xs {
		if !m[x] {
			m[x] = true
			out = append(out, x)
		}
	}
	return out
}

// replayCmd re-examines a violation file written by `gvc check`: it prints the failed
// obligation with the verifier's output, re-runs the recorded SMT query, and re-runs the
// registered replay of that obligation against the real code in /repo.
// Exit status: 1 = the real code fails (replay confirmed), 0 = no failing input reproduced.
func replayCmd(args []string) {
	if len(args) != 1 {
		fatal("usage: gvc replay <violation.json>")
	}
	root := "/verif"
	var rep map[string]interface{}
	if err := readJSON(args[0], &rep); err != nil {
		fatal("%v", err)
	}
	prop, _ := rep["property"].(string)
	obl, _ := rep["obligation"].(string)
	fmt.Printf("property   %s\nobligation %s\nreason     %v\nposition   %v\nsolver     %v -> %v\n", prop, obl, rep["reason"], rep["position"], rep["solver"], rep["solver_status"])
	if smt, _ := rep["smt2"].(string); smt != "" {
		if _, err := os.Stat(smt); err == nil {
			out, _ := exec.Command("z3-new", "-smt2", "-T:20", "smt.mbqi=false", smt).CombinedOutput()
			fmt.Printf("query      %s: %s\n", smt, truncate(strings.SplitN(string(out), "\n", 2)[0], 200))
		}
	}
	if m, ok := rep["candidate_model"].(string); ok {
		fmt.Printf("candidate model (quantifier-free relaxation):\n%s\n", truncate(m, 1500))
	}
	ok, out := tryReplay(root, prop, obl, args[0])
	if out == "" {
		fmt.Println("replay     no replay registered for this obligation (no-failing-input-found)")
		os.Exit(0)
	}
	fmt.Printf("replay output:\n%s\n", tail(out, 40))
	if ok {
		fmt.Println("replay     CONFIRMED on the real code")
		os.Exit(1)
	}
	fmt.Println("replay     not reproduced on the current tree")
	os.Exit(0)
}
