//go:build verif

package toy

//@ func Max(a, b int) (r int)
//@   ensures ge: r >= a && r >= b
//@   ensures one: r == a || r == b

//@ func Find(xs []int, x int) (r int)
//@   ensures range: r == -1 || (0 <= r && r < len(xs))
//@   ensures found: r >= 0 ==> xs[r] == x
//@   ensures notfound: r == -1 ==> (forall j int :: 0 <= j && j < len(xs) ==> xs[j] != x)
//@   loop 1 invariant (forall j int :: 0 <= j && j < loopk ==> xs[j] != x)
//@   loop 1 invariant 0 <= loopk && loopk <= len(xs)

//@ func (r *Rev) Step() (err error)
//@   requires r != nil
//@   modifies r.Applied
//@   ensures err == nil ==> r.Applied == old(r.Applied) + 1
//@   ensures err != nil ==> r.Applied == old(r.Applied)

//@ func Check(r *Rev, sums []string) (err error)
//@   requires r != nil && r.Applied <= len(r.Hashes)
//@   loop 1 invariant 0 <= i

//@ rec cnt
//@ spec func cnt(xs []int, n int) int {
//@ spec 	if n <= 0 {
//@ spec 		return 0
//@ spec 	}
//@ spec 	if xs[n-1] > 0 {
//@ spec 		return cnt(xs, n-1) + 1
//@ spec 	}
//@ spec 	return cnt(xs, n-1)
//@ spec }

//@ func CountPos(xs []int) (r int)
//@   ensures r == cnt(xs, len(xs))
//@   loop 1 invariant 0 <= loopk && loopk <= len(xs) && n == cnt(xs, loopk)

//@ func FilterPos(xs []int) (r []int)
//@   ensures len(r) == old(cnt(xs, len(xs)))
//@   ensures (forall i int :: 0 <= i && i < len(xs) && old(xs[i] > 0) ==> r[old(cnt(xs, i))] == old[int](xs[i]))
//@   loop 1 localwrites
//@   loop 1 invariant 0 <= loopk && loopk <= len(xs) && len(out) == old(cnt(xs, loopk)) && GvcFresh(out)
//@   loop 1 invariant (forall i int :: 0 <= i && i < loopk && old(xs[i] > 0) ==> 0 <= old(cnt(xs, i)) && old(cnt(xs, i)) < len(out))
//@   loop 1 invariant (forall i int :: 0 <= i && i < loopk && old(xs[i] > 0) ==> out[old(cnt(xs, i))] == old[int](xs[i]))
