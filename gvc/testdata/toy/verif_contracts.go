//go:build verif

package toy

//@ func Max(a, b int) (r int)
//@   ensures ge: r >= a && r >= b
//@   ensures one: r == a || r == b

//@ func Find(xs []int, x int) (r int)
//@   ensures range: r == -1 || (0 <= r && r < len(xs))
//@   ensures found: r >= 0 ==> xs[r] == x
//@   ensures notfound: r == -1 ==> (forall j int :: 0 <= j && j < len(xs) ==> xs[j] != x)
//@   loop 1 invariant (forall j int :: 0 <= j && j < loopk ==> xs[j] != x)
//@   loop 1 invariant 0 <= loopk && loopk <= len(xs)

//@ func (r *Rev) Step() (err error)
//@   requires r != nil
//@   modifies r.Applied
//@   ensures err == nil ==> r.Applied == old(r.Applied) + 1
//@   ensures err != nil ==> r.Applied == old(r.Applied)

//@ func Check(r *Rev, sums []string) (err error)
//@   requires r != nil && r.Applied <= len(r.Hashes)
//@   loop 1 invariant 0 <= i
