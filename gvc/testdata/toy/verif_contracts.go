//go:build verif

package toy

//@ func Max(a, b int) (r int)
//@   ensures ge: r >= a && r >= b
//@   ensures one: r == a || r == b

//@ func Find(xs []int, x int) (r int)
//@   ensures range: r == -1 || (0 <= r && r < len(xs))
//@   ensures found: r >= 0 ==> xs[r] == x
//@   ensures notfound: r == -1 ==> (forall j int :: 0 <= j && j < len(xs) ==> xs[j] != x)
//@   loop 1 invariant (forall j int :: 0 <= j && j < loopk ==> xs[j] != x)
//@   loop 1 invariant 0 <= loopk && loopk <= len(xs)

//@ func (r *Rev) Step() (err error)
//@   requires r != nil
//@   modifies r.Applied
//@   ensures err == nil ==> r.Applied == old(r.Applied) + 1
//@   ensures err != nil ==> r.Applied == old(r.Applied)

//@ func Check(r *Rev, sums []string) (err error)
//@   requires r != nil && r.Applied <= len(r.Hashes)
//@   loop 1 invariant 0 <= i

//@ rec cnt
//@ spec func cnt(xs []int, n int) int {
//@ spec 	if n <= 0 {
//@ spec 		return 0
//@ spec 	}
//@ spec 	if xs[n-1] > 0 {
//@ spec 		return cnt(xs, n-1) + 1
//@ spec 	}
//@ spec 	return cnt(xs, n-1)
//@ spec }

//@ func CountPos(xs []int) (r int)
//@   ensures r == cnt(xs, len(xs))
//@   loop 1 invariant 0 <= loopk && loopk <= len(xs) && n == cnt(xs, loopk)

//@ func FilterPos(xs []int) (r []int)
//@   ensures len(r) == old(cnt(xs, len(xs)))
//@   ensures (forall i int :: 0 <= i && i < len(xs) && old(xs[i] > 0) ==> r[old(cnt(xs, i))] == old[int](xs[i]))
//@   loop 1 localwrites
//@   loop 1 invariant 0 <= loopk && loopk <= len(xs) && len(out) == old(cnt(xs, loopk)) && GvcFresh(out)
//@   loop 1 invariant (forall i int :: 0 <= i && i < loopk && old(xs[i] > 0) ==> 0 <= old(cnt(xs, i)) && old(cnt(xs, i)) < len(out))
//@   loop 1 invariant (forall i int :: 0 <= i && i < loopk && old(xs[i] > 0) ==> out[old(cnt(xs, i))] == old[int](xs[i]))

//@ spec func hasD(ds []D, pos int) bool { return (exists k int :: 0 <= k && k < len(ds) && ds[k].Code == "c" && ds[k].Pos == pos) }
//@ func Collect(xs []int) (r []D)
//@   ensures (forall i int :: 0 <= i && i < len(xs) && xs[i] > 0 ==> hasD(r, xs[i]))
//@   loop 1 localwrites
//@   loop 1 invariant ds == nil || GvcFresh(ds)
//@   loop 1 invariant (forall i int :: 0 <= i && i < loopk && xs[i] > 0 ==> hasD(ds, xs[i]))

//@ spec func hasD2(ds []D2, code string, pos int) bool { return (exists k int :: 0 <= k && k < len(ds) && ds[k].Code == code && ds[k].Pos == pos) }
//@ rec anyPos fuel
//@ spec func anyPos(sc *Chg, n int) bool {
//@ spec 	if n <= 0 {
//@ spec 		return false
//@ spec 	}
//@ spec 	return (sc.Xs[n-1] > 0 && sc.Xs[n-1] <= 10) || anyPos(sc, n-1)
//@ spec }
//@ func Collect2(cs []*Chg) (r []D2)
//@   requires (forall i int :: 0 <= i && i < len(cs) ==> cs[i] != nil && cs[i].Stmt != nil)
//@   ensures (forall i int :: 0 <= i && i < len(cs) && anyPos(cs[i], len(cs[i].Xs)) ==> hasD2(r, "c", cs[i].Stmt.Pos))
//@   loop 1 localwrites
//@   loop 2 localwrites
//@   loop 1 invariant ds == nil || GvcFresh(ds)
//@   loop 2 invariant ds == nil || GvcFresh(ds)
//@   loop 1 invariant (forall i int :: 0 <= i && i < loopk && anyPos(cs[i], len(cs[i].Xs)) ==> hasD2(ds, "c", cs[i].Stmt.Pos))
//@   loop 2 invariant 0 <= loopi1 && loopi1 < len(cs) && 0 <= loopk && loopk <= len(cs[loopi1].Xs)
//@   loop 2 invariant (forall i int :: 0 <= i && i < loopi1 && anyPos(cs[i], len(cs[i].Xs)) ==> hasD2(ds, "c", cs[i].Stmt.Pos))
//@   loop 2 invariant anyPos(cs[loopi1], loopk) ==> hasD2(ds, "c", cs[loopi1].Stmt.Pos)
