module gvctoy

go 1.22
