package toy

import "errors"

type Rev struct {
	Applied int
	Total   int
	Hashes  []string
}

var ErrBad = errors.New("bad")

func Max(a, b int) int {
	if a > b {
		return a
	}
	return b
}

func Sum(xs []int) int {
	s := 0
	for i := 0; i < len(xs); i++ {
		s += xs[i]
	}
	return s
}

func Find(xs []int, x int) int {
	for i, v := range xs {
		if v == x {
			return i
		}
	}
	return -1
}

func (r *Rev) Step() error {
	if r.Applied >= r.Total {
		return ErrBad
	}
	r.Applied++
	return nil
}

func Check(r *Rev, sums []string) error {
	for i := 0; i < r.Applied; i++ {
		if i > len(sums) || sums[i] != r.Hashes[i] {
			return ErrBad
		}
	}
	return nil
}

func CountPos(xs []int) int {
	n := 0
	for _, x := range xs {
		if x > 0 {
			n++
		}
	}
	return n
}

func FilterPos(xs []int) []int {
	out := make([]int, 0, len(xs))
	for _, x := range xs {
		if x > 0 {
			out = append(out, x)
		}
	}
	return out
}

// D is a small struct appended to a slice (struct-element append model).
type D struct {
	Pos  int
	Code string
}

// Collect records a D for every positive element.
func Collect(xs []int) []D {
	var ds []D
	for _, x := range xs {
		if x > 0 {
			ds = append(ds, D{Pos: x, Code: "c"})
		}
	}
	return ds
}

type Fix struct{ Msg string }

type D2 struct {
	Pos   int
	Text  string
	Code  string
	Fixes []Fix
}

type Stmt struct{ Pos int }
type Chg struct {
	Xs   []int
	Stmt *Stmt
}

// Collect2 mirrors the shape of the destructive analyzer: nested loops, a struct with a slice field.
func Collect2(cs []*Chg) []D2 {
	var ds []D2
	for _, sc := range cs {
		for _, x := range sc.Xs {
			switch {
			case x > 10:
				ds = append(ds, D2{Pos: sc.Stmt.Pos, Code: "a", Text: "big"})
			case x > 0:
				ds = append(ds, D2{Pos: sc.Stmt.Pos, Code: "c", Text: "pos", Fixes: []Fix{{Msg: "m"}}})
			}
		}
	}
	return ds
}
