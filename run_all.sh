#!/bin/bash
# Runs every registered quick check on the current tree and validates manifest + evidence.
cd /verif || exit 2
fail=0
for p in $(python3 -c "import json;print(' '.join(c['property_id'] for c in json.load(open('MANIFEST.json'))['checks']))"); do
  out=$(./bin/gvc check -p $p -tier ${1:-quick} 2>/dev/null | tail -3); rc=$?
  echo "$out" | tail -2
  echo "$out" | grep -q VIOLATION && fail=1
done
python3-vt - <<'PY'
import json,jsonschema,sys
m=json.load(open('/verif/MANIFEST.json'))
jsonschema.validate(m,json.load(open('/root/.vp/MANIFEST.schema.json')))
s=json.load(open('/root/.vp/EVIDENCE.schema.json'))
for c in m['checks']:
    e=json.load(open(c['evidence_file']))
    jsonschema.validate(e,s)
    cov=e['coverage']
    assert cov['obligations']==cov['discharged'], (c['property_id'],cov['obligations'],cov['discharged'])
print('manifest and evidence valid')
PY
exit $fail
