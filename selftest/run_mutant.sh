#!/bin/bash
# usage: run_mutant.sh <prop> <diff>  — applies the diff to /repo, runs the quick check, reverts.
# /repo must be clean (everything committed) before calling this.
set -u
prop=$1; diff=$2
cd /repo || exit 2
if [ -n "$(git status --porcelain)" ]; then echo "/repo not clean"; exit 2; fi
if ! git apply "$diff"; then echo "cannot apply $diff"; exit 2; fi
cd /verif && ./bin/gvc check -p "$prop" -tier quick 2>/dev/null | tail -${3:-4}
rc=${PIPESTATUS[0]}
cd /repo && git checkout -- .
exit $rc
