#!/bin/bash
# Vacuity audit: for every function under contract listed in props/*.json, ask for every obligation
# (and every disjunct of its path condition) whether the context alone is contradictory.
# Output: one line per contradictory context.  Dead code shows up too: triage by hand.
cd /verif || exit 2
python3 - <<'PY' | sort -u | while read mod pat key; do
import json,glob
for f in sorted(glob.glob('props/C*.json')):
    d=json.load(open(f))
    for l in d['loads']:
        for fn in l['funcs']:
            pkg=fn['pkg']; key=fn['key'].split('@')[0]
            rel='./'+pkg.split('ariga.io/atlas/')[-1] if l['mod_dir']=='/repo' else './'+pkg.split('ariga.io/atlas/cmd/atlas/')[-1]
            print(l['mod_dir'],rel,key)
PY
  echo "## $mod $pat $key"
  ./bin/gvc vc -dir "$mod" -func "$key" -audit -t 20 "$pat" 2>&1 | grep "CONTRADICTORY\|VACUOUS\|FAIL\|ERROR" | cut -c1-220
done
