#!/bin/bash
# Runs every must-fail mutant and every seeded change against its property's quick check.
# /repo must be clean.  Prints one line per mutant; exit 1 if any is not caught.
cd /verif || exit 2
bad=0
run() { # prop diff
  out=$(GVC_TIMEOUT_S=${GVC_MUT_TIMEOUT:-15} selftest/run_mutant.sh "$1" "$2" 6 2>&1)
  if echo "$out" | grep -q "^VIOLATION property=$1 "; then
    echo "caught  $1 $(basename $(dirname $2))/$(basename $2): $(echo "$out" | grep -m1 '^VIOLATION' | sed 's/.*obligation=//' | cut -c1-110)"
  else
    echo "MISSED  $1 $2"; echo "$out" | tail -3; bad=1
  fi
}
# (the heavy properties last: C18, C04)
for d in $(ls selftest/mutants/m_c*.diff | grep -v "m_c04_\|m_c18_") $(ls selftest/mutants/m_c18_*.diff selftest/mutants/m_c04_*.diff); do
  p=$(basename $d | sed 's/m_c\([0-9]*\)_.*/C\1/')
  run $p /verif/$d
done
run C12 /verif/selftest/mutants/m_exec_1.diff; run C09 /verif/selftest/mutants/m_exec_2.diff; run C12 /verif/selftest/mutants/m_exec_3.diff; run C09 /verif/selftest/mutants/m_exec_4.diff; run C09 /verif/selftest/mutants/m_exec_5.diff
for s in $(ls seeded/C*/patch.diff | grep -v "C04\|C18") seeded/C18/patch.diff seeded/C04/patch.diff; do run $(basename $(dirname $s)) /verif/$s; done
exit $bad
